#!/usr/bin/env python3
"""Regenerates /verif/MANIFEST.json from the table below (one entry per built check).
Properties without an entry are listed under not_applicable with the reason given in PENDING."""
import json, os, sys
V = os.path.dirname(os.path.dirname(os.path.abspath(__file__)))
sys.path.insert(0, V)

CHECKS = {}
PENDING = {}


def chk(pid, engine, cat, text, note, technique, ref):
    CHECKS[pid] = dict(
        property_id=pid,
        quick_cmd="./check %s --tier quick" % pid,
        thorough_cmd="./check %s --tier thorough" % pid,
        evidence_file="evidence/%s.json" % pid,
        replay_cmd_template="./check %s --replay {path}" % pid,
        engine=engine,
        level_claimed=dict(category=cat, text=text, design_ref=ref),
        level_note=note, technique=technique)


exec(open(os.path.join(V, "tools", "manifest_table.py")).read())

props = [json.loads(l) for l in open(os.path.join(V, "properties.jsonl"))]
m = {
    "version": 1,
    "setup_cmd": "true",
    "hooks": {
        "guard": "AGENTD_SQUASHFS_TOOLS_NG_VERIF",
        "enable": "checks compile /repo's working tree directly (vlib/build.py) with -DAGENTD_SQUASHFS_TOOLS_NG_VERIF=1; "
                  "one in-tree hook (lib/sqfs/src/meta_reader.c): with the define and AddressSanitizer the unused tail of the "
                  "metadata reader's block buffer is poisoned so that reads behind data_used are reported (used by C05, C10, C19 "
                  "and every check that runs ASan readers). Everything else needs no hook: the scheduler enters through -include of "
                  "a shim header, the environment controller through -Wl,--wrap, private state through #include of the .c file "
                  "into a harness TU, hash truncation through -Dxxh32=",
        "baseline_off_cmd": "make -C /repo -j8 check",
        "source_commits": ["9b83a562e6130b736eb2b773ef3a1b078b4edb7c"],
        "add_only": True,
    },
    "engines": ENGINES,
    "checks": [CHECKS[p["id"]] for p in props if p["id"] in CHECKS],
    "not_applicable": [dict(property_id=p["id"], reason=PENDING.get(p["id"], "check not built yet; see DESIGN.md section 3 for the planned bounded-exhaustive check"))
                       for p in props if p["id"] not in CHECKS],
    "notes": NOTES,
}
json.dump(m, open(os.path.join(V, "MANIFEST.json"), "w"), indent=1)
print("checks:", [c["property_id"] for c in m["checks"]])
print("not_applicable:", [c["property_id"] for c in m["not_applicable"]])
try:
    import jsonschema
    jsonschema.validate(m, json.load(open("/root/.vp/MANIFEST.schema.json")))
    print("manifest valid")
except ImportError:
    print("jsonschema not available; not validated")
