#!/usr/bin/env python3
"""evidence_table.py: markdown table of what the last quick (evidence/) and thorough (evidence_thorough/) runs covered"""
import json, os, glob
V = os.path.dirname(os.path.dirname(os.path.abspath(__file__)))
print("| id | quick: evaluations / distinct / exhaustive / wall | thorough: evaluations / distinct / exhaustive / wall | caps hit (thorough) |")
print("|---|---|---|---|")
for i in range(1, 20):
    pid = "C%02d" % i
    row = [pid]
    caps = ""
    for d in ("evidence", "evidence_thorough"):
        p = os.path.join(V, d, pid + ".json")
        if not os.path.exists(p):
            row.append("–")
            continue
        e = json.load(open(p))
        c = e.get("coverage", {})
        ev = c.get("evaluations", c.get("executions"))
        row.append("%s / %s / %s / %ss (%s)" % (format(ev, ",") if isinstance(ev, int) else ev, format(c.get("distinct_nontrivial"), ",") if isinstance(c.get("distinct_nontrivial"), int) else c.get("distinct_nontrivial"),
                                              "yes" if c.get("exhaustive") else "no", int(e.get("wall_s", 0) or 0), e.get("tier")))
        if d == "evidence_thorough":
            cl = c.get("caps") or c.get("caps_hit") or []
            caps = "; ".join(str(x)[:90] for x in cl[:2])
    row.append(caps or "–")
    print("| " + " | ".join(row) + " |")
