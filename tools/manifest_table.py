# table of built checks; exec'd by gen_manifest.py
NOTES = ("Every check rebuilds what it needs from /repo's working tree into a private scratch directory (removed on exit) "
         "and enumerates a bounded space exhaustively; capped runs report exhaustive:false and exit 0. "
         "known_findings.json lists genuine defects (open / fixed).")

ENGINES = [
    dict(name="SCHED", path="engines/sched", serves_properties=["C09", "C02", "C08"],
         kind_free_text="controlled scheduler over the real pthread call sites (force-included shim), stateless DFS explorer with one forked "
                        "process per execution, shared visited table (state-hash pruning), iterated preemption bound, 16 worker processes"),
    dict(name="STR", path="engines/str/canon_enum.c", serves_properties=["C18"],
         kind_free_text="in-process exhaustive enumerator of all strings up to a length bound against an independent specification"),
]

chk("C18", "STR", "exploration",
    "Bounded-exhaustive: every string up to length 10 (quick) / 12 (thorough) over {'/','.','a',0xE9} and larger alphabets at smaller "
    "lengths, plus periodic long strings (255..65537 bytes), is run through the real canonicalize_name/is_filename_sane and compared "
    "with an independent specification (return value, buffer, no growth, idempotence, cleanliness, no out-of-bounds write). "
    "The functions only distinguish '/', '.' and 'other', so the small alphabet covers every behaviour class up to the length bound.",
    "Trusts: ASan, the 20-line specification in canon_enum.c. Strings longer than the bound are only covered by the periodic family.",
    "bounded exhaustive enumeration of inputs against a reference model", "3/C18")

chk("C09", "SCHED", "model_checking",
    "Stateless model checking of the implementation: lib/util/src/threadpool.c is compiled unmodified with its pthread calls routed to a "
    "controlled scheduler; all interleavings at mutex/condvar/join granularity (plus a yield inside the callback, plus 0..2 spurious wake-ups) "
    "of 1..3 workers x 1..5 items x every failing position x 7 driver shapes are enumerated with preemption bounds 0,1,2 and then completely "
    "(small configurations) or to bound 2/3 (largest). Oracles: exactly-once, FIFO hand-back, per-worker context exclusivity, failure status "
    "surfaces, every call returns (deadlock/livelock detection), ASan clean. A free-running ThreadSanitizer pass complements it for unsynchronised accesses.",
    "Sync-operation granularity; memory-model effects below that only via TSan (sampling). State-hash pruning cross-validated against un-hashed "
    "bounded exploration on every run. Trusts the scheduler shim (engines/sched/vs.c).",
    "stateless model checking with preemption bounding and state-hash pruning (CHESS style) on the real code", "2.2, 3/C09")

ENGINES += [
    dict(name="GEN+SQFSCK", path="vlib/treegen.py vlib/packcases.py vlib/sqfsck.py vlib/kmount.py", serves_properties=["C01", "C03", "C08", "C16", "C17"],
         kind_free_text="bounded-exhaustive generators of tree specifications / configurations / 1-D boundary sweeps, independent SquashFS decoder+validator "
                        "written from doc/format.adoc, kernel loop-mount cross-check"),
    dict(name="ENV", path="engines/env/envwrap.c vlib/envrun.py vlib/envscn.py", serves_properties=["C11", "C12", "C13", "C14"],
         kind_free_text="environment controller linked into the real tools with -Wl,--wrap: per-call-index short counts, EINTR, errors, NULL allocations, "
                        "kill-before-output-call, readdir permutations; deviation-bounded enumeration over the call log of the undisturbed run"),
]

chk("C01", "GEN+SQFSCK", "exploration",
    "Bounded-exhaustive input enumeration on the real gensquashfs (ASan): every tree that is a union of <=2 (quick) / <=3 (thorough) of 30 entry templates "
    "x a covering set of configurations, as pack file and as real directory, plus exhaustive 1-D sweeps across every numeric boundary the property names "
    "(entries per directory, file sizes x content classes x compressors, 65534..65537 ids, 510..514/1023..1025 xattr sets, hard-link groups, all inode types). "
    "Oracle: independent decoder's tree == documented model; unrepresentable inputs refused without output; rdsquashfs cat/unpack agree; kernel mount agrees.",
    "Small scope: interactions needing >3 templates are outside; boundaries are swept one dimension at a time. Trusts SQFSCK (cross-checked against the kernel each run) and the model of gensquashfs.1.",
    "bounded exhaustive enumeration of inputs x configurations against an independent reference decoder", "3/C01")
chk("C03", "GEN+SQFSCK", "exploration",
    "Every image produced by the bounded-exhaustive generators (C01 trees x configurations, sweeps, incompressible data/metadata sweeps per compressor, tar inputs) "
    "is decoded and checked against every MUST-level invariant of doc/format.adoc encoded in the validator.",
    "Only rules the format document (or the kernel reader) states are enforced; SHOULD clauses are notes. Validator = vlib/sqfsck.py.",
    "bounded exhaustive enumeration of inputs, invariant checked on every produced image", "3/C03")
chk("C11", "ENV", "fault_enumeration",
    "All tuples of per-directory permutations of readdir's answer are injected under the real gensquashfs for four trees (plain, hard links inside one directory, "
    "hard links across directories, three directories sharing an inode) x 5..9 option sets; one image sha256 per (tree, options) is demanded.",
    "readdir is the only source of host order; trees have <= 6 entries per directory (6! x 2! tuples).",
    "exhaustive enumeration of environment answers (all readdir permutations) on the real tool", "3/C11")
chk("C12", "ENV", "fault_enumeration",
    "Deviation-bounded enumeration over the call log of the undisturbed run: every read/pread/write/pwrite call index x {short 1, half, n-1, EINTR} (bound 1), "
    "global 1/7/511/513-byte transfer caps, bound 2 (all pairs across call classes) on the two smallest scenarios in the thorough tier, and real pipes with chunked "
    "writers/readers, on 11 end-to-end scenarios of the four tools. Output bytes / unpacked tree and exit status must equal the undisturbed run.",
    "-j 1 for a reproducible call sequence (verified by running the baseline twice); at most two deviations per run.",
    "exhaustive single- and double-deviation fault enumeration over the syscall log of the real tools", "3/C12")
chk("C13", "ENV", "fault_enumeration",
    "Every call index k of every syscall class (write, pwrite, read, pread, ftruncate, open, lseek, fsync, dup, mmap) and every allocation made by project code is failed once per fault kind "
    "in 11 end-to-end scenarios (absolute and relative output paths, --pack-dir). Oracle: no crash; exit!=0 + diagnostic + no output file at the path the user named, "
    "or exit 0 with identical output. Violations are fingerprinted by the project function where the fault was injected (stack trace at the deviation point).",
    "Serial block processor build so allocation indices replay; single faults only; library-internal allocations not failed.",
    "exhaustive single-fault enumeration over the syscall/allocation log of the real tools", "3/C13")
chk("C14", "ENV", "fault_enumeration",
    "For each scenario and every k in 1..N+1 the packer is killed immediately before the k-th write/pwrite/ftruncate on the output file (all crash points between "
    "consecutive output syscalls); rdsquashfs -d/-l, sqfs2tar and the independent decoder are applied to each leftover file: all reject, or all accept and the tree is complete.",
    "Whole-syscall granularity as the property states; writes assumed to reach the file in program order.",
    "exhaustive crash-point enumeration on the real packers", "3/C14")

chk("C02", "SCHED", "model_checking",
    "Schedules: the real block processor (frontend/backend/block_processor.c, block_writer.c, frag_table.c) on the real threadpool.c under the controlled scheduler; for "
    "12 (quick) / 18 (thorough) file scenarios (tails, fragment dedup, sparse, fragment-block overflow followed by data blocks, duplicate files with dedup-truncate, "
    "DONT_FRAGMENT/DONT_DEDUPLICATE) x workers {1,2,3} x backlog {3,4,10} every interleaving (complete for <=2 workers, preemption-bounded for 3) must reproduce the serial pool's "
    "bytes, inodes and fragment table. Configurations: -j x -Q grid and CPU-affinity masks on the real tools vs the NO_THREAD_IMPL build. Environment: full product clock x TZ x locale x umask x cwd.",
    "Toy RLE compressor and 32-byte blocks in the schedule harness; sync-operation granularity; CLI runs contribute one OS schedule each.",
    "stateless model checking (preemption bounding + state-hash pruning) of the implementation against a serial reference, plus exhaustive configuration/environment grids", "3/C02")

chk("C08", "GEN+SQFSCK", "exploration",
    "The checksum is replaced at link time by a 0/1/2/4-bit truncation so that equal-size blocks and fragments collide; all ordered pairs over 62 file shapes, all ordered triples "
    "over 15 shapes, tails-only sequences of length 4-5 (fragment-block overflow; candidates in memory, on disk, cached, evicted) x checksum width x (-j,-Q) x compressor go through the "
    "real gensquashfs; every file must decode byte-exact and identical files must share storage. The block processor additionally runs under every schedule with a 0-bit checksum "
    "(in-flight fragment blocks), each file read back byte-exact in every execution.",
    "Block/tail alphabet of 5+4 contents, <=4 files (5 for tails-only). Trusts SQFSCK.",
    "bounded exhaustive enumeration of inputs under forced checksum collisions + stateless model checking of in-flight states", "3/C08")

chk("C17", "GEN+SQFSCK", "exploration",
    "All subsets of <=3 (quick) / <=4 (thorough) files from a 7-file alphabet x every sort file over {-1,0,1}^k priorities, every flag subset per file, exact/glob/glob_no_path patterns, "
    "overlapping lines in both orders, quoted names, non-matching lines x {default,-T,-e,-b 8192}; the decoded layout must show exactly the documented effect (stable priority order of blocks and "
    "tails, first match wins, per-flag storage facts, default policy for unflagged files, -T only for files > B, export table iff -e) with contents unchanged and the image valid.",
    "Small scope (<=4 files, 2 directories); fnmatch modelled for * and ? only. Trusts SQFSCK.",
    "bounded exhaustive enumeration of trees x sort files x options against layout facts from an independent decoder", "3/C17")

chk("C16", "GEN+SQFSCK", "exploration",
    "Every name of length 1..2 (quick) / 1..3 (thorough) over {a, space, tab, \", \\, #, ', 0xE9} as file, directory with child and device, every symlink target of length <=2 over the "
    "alphabet plus '/', x --unpack-root variants: gensquashfs(directory) -> rdsquashfs --describe / --unpack-path -> gensquashfs --pack-file must be accepted and decode to the same tree.",
    "String length <=3; root inode attributes not compared (listing has no line for '/'). Trusts SQFSCK.",
    "bounded exhaustive enumeration of names/targets through the real tool pipeline", "3/C16")

ENGINES += [
    dict(name="MKIMG", path="vlib/mkimg.py vlib/baseimgs.py", serves_properties=["C05", "C06", "C10"],
         kind_free_text="independent SquashFS image writer (uncompressed metadata) returning the offset and width of every on-disk field; writes arbitrary directory listings"),
]

chk("C05", "MKIMG", "exploration",
    "Deviation-bounded structure-aware enumeration of hostile images: every on-disk field of 3 (quick) / 4 (thorough) base images x a value alphabet (boundary values, flag toggles, "
    "wrap-around complements, every other same-role value for aliasing/loops/type confusion), all pairs over inode+superblock fields of the minimal image (thorough), every metadata byte x "
    "2 (quick) / 4 (thorough) values and every truncation length of the minimal image and of a gzip image with compressed metadata; each variant is given to rdsquashfs -l/-d/-s/-x/-c/-u, "
    "sqfs2tar and sqfsdiff built with ASan. Oracle: terminates, no sanitizer report, no signal, no abort.",
    "Replaces coverage-guided mutation (sampling) by exhaustive deviation-1/2 families; unstructured garbage beyond single-byte edits is not explored. Custom allocator pools can hide "
    "overflows inside pooled objects from ASan.",
    "bounded exhaustive enumeration of deviations from valid images against a memory-safety/termination oracle", "3/C05")

chk("C06", "MKIMG", "exploration",
    "Hostile directory listings written verbatim by the independent image writer — all 1-entry listings over 12 names ('.', '..', 'a/b', absolute and ../ paths into the jail, NUL, ...) x 11 "
    "kinds (file, directory with children, fifo, device, symlinks to the jail/'..'/'.'/'/'), all ordered 2-entry listings incl. duplicates, type mismatches, structured 3-entry listings "
    "(symlink + same-named directory with children + file through it) in all orders, nested and with pre-existing unpack root — x unpack option subsets x unpack path are unpacked by the "
    "real rdsquashfs as root inside a jail; a recursive snapshot (type, mode, owner, size, content hash, target, mtime, xattrs) of everything outside the unpack root must not change.",
    "<=3 entries per hostile listing; symlink/absolute targets point into the jail so that an escape lands where the snapshot looks.",
    "bounded exhaustive enumeration of hostile directory listings against a filesystem-snapshot oracle", "3/C06")

ENGINES += [
    dict(name="TARMK", path="vlib/tarmk.py vlib/tarcases.py", serves_properties=["C04", "C07", "C15", "C03"],
         kind_free_text="own tar writer with byte-level control over the dialect (v7, ustar, GNU, PAX, four sparse formats, xattr encodings) and the semantic model of the "
                        "archive; validated against Python tarfile and GNU tar"),
]

chk("C04", "TARMK", "exploration",
    "Bounded-exhaustive archive families from an own tar writer (dialects x field encodings x boundary lengths/values, four sparse formats x all 16 hole subsets + many-region maps, xattr "
    "encodings, entry orders, prefixes, skipped records) through the real tar2sqfs: independent decoder == documented model and the image is valid; sqfs2tar output is read back by two "
    "independent tar implementations (Python tarfile, GNU tar extraction as root) for these images and for all gensquashfs images of <=1/<=2 tree templates x sqfs2tar option sets; "
    "image->tar->image->tar->image must reach a byte-exact fixpoint.",
    "Archives of <=3 entries; the model encodes tar2sqfs.1/sqfs2tar.1 only; one open known finding (xattr order never reaches a fixpoint).",
    "bounded exhaustive enumeration of archives against a reference model and two independent readers", "3/C04")
chk("C07", "TARMK", "exploration",
    "Deviation-bounded mutation of valid inputs: every header field of every header of 8 base archives x a value alphabet (typeflag x 256), bad checksums, truncation at every 64th / every offset, "
    "byte-level edits of the first 1.5 KiB, hand-made PAX records / sparse maps / long-name sizes, corrupted and truncated compressed wrappers, all hard-link graphs on <=3 link entries x orders; "
    "token-, line- and character-level mutation and every truncation of valid pack, sort and xattr files, keyword swaps, glob lines with missing arguments, bare pack file names, link-line "
    "graphs. Oracle: terminates; ASan clean; exit 0 => valid image (validator, model for link graphs); exit != 0 => diagnostic and no output file.",
    "Deviation 1 from valid inputs plus single-byte coverage of small inputs; declared sparse sizes bounded to 4 GiB + 1.",
    "bounded exhaustive enumeration of deviations from valid inputs against a termination/memory-safety/fail-stop oracle", "3/C07")

ENGINES += [
    dict(name="HIST", path="engines/hist/reader_hist.c engines/hist/copy_hist.c", serves_properties=["C10", "C19"],
         kind_free_text="API-history exploration in C against the real library: state = operation history replayed on fresh objects, answers compared with fresh-object answers; "
                        "BFS with deduplication on the private state where it is observable (metadata reader)"),
]

chk("C15", "TARMK", "exploration",
    "Archives (1.5 KiB, 40 KiB, incompressible archives sized around the 128 KiB and 256 KiB buffers) x reference encoders for gzip/xz/bzip2/zstd(+checksum) x levels x block sizes; "
    "two-member splits at every offset / every 512-byte boundary +-1, a three-member split, real pipes with chunk sizes 1..65536 through tar2sqfs: image sha256 == plain archive's. Trailing "
    "padding/garbage, every proper prefix and every single-byte corruption of the compressed small archive: error or the intact image. sqfs2tar -c X expanded by the reference decoder == plain output.",
    "Reference codecs are Python zlib/lzma/bz2 and the system libzstd; corruption of a zstd frame without content checksum is undetectable by design and not demanded.",
    "bounded exhaustive enumeration of codec x split x chunking configurations against the uncompressed reference", "3/C15")
chk("C10", "HIST", "model_checking",
    "Every history of length <= 3 (quick) / 4 (thorough) over 24 reader operations with valid and invalid arguments is replayed on fresh reader objects for gensquashfs images of every "
    "compressor, an image from the independent writer and six damaged variants; each answer (status, payload hash) must equal the same operation's answer on fresh readers. The metadata "
    "reader is explored by BFS to a fixpoint over seek+read operations with deduplication on its complete private state. Stream, positional read and per-block access must agree.",
    "Depth-bounded for all readers but the metadata reader; directory reader with flags 0.",
    "explicit-state exploration of API histories on the implementation with a fresh-object reference", "3/C10")

chk("C19", "HIST", "model_checking",
    "For each of 19 copyable object kinds (5 compressors x 2 directions, fragment/ID table, metadata/directory(x2)/data/xattr reader, read-only file, xattr writer) every pre-copy history "
    "of length <= 1 (quick) / 2 (thorough), every interleaving of <= 2 / 3 further operations over {original, copy} and both release orders (the survivor is exercised again) is executed "
    "against the real library; every answer must equal that of a fresh object replaying only that object's own history; ASan and LeakSanitizer clean; shared reference counts restored.",
    "Operation alphabets of 2-5 operations per kind; LeakSanitizer at process exit as leak oracle.",
    "explicit-state exploration of API histories on the implementation with a fresh-object reference", "3/C19")

# families added after the seeded-change rounds (DESIGN.md 10.5); appended to the level text of the check
EXTRA = {
    "C01": "Added: byte-by-byte listing-size sweeps across 8 KiB / 64 KiB, neighbouring files made of repeating block units, 'fragment block in flight' sweep "
           "(tails overflowing a fragment block followed by zero-tail / sparse files), files larger than 4 GiB made of holes, 1 MiB blocks.",
    "C02": "Added: scheduling points after mutex unlock, compressible-tail overflow scenarios, the serial reference must be the same for backlog 1 / given / unbounded, "
           "per-file DONT_COMPRESS scenarios, a CLI -j/-Q grid input with a sort file (dont_compress, dont_fragment), TSan run of gensquashfs.",
    "C04": "Added: follower entries behind every single-entry case (a miscounted record shows at the NEXT header), sparse maps at the region counts where the 1.0 map "
           "crosses one and two records, xattr value lengths across the PAX record-length digit boundaries, ustar prefix lengths 1..155.",
    "C05": "Added: the libsquashfs reader API driven directly on every variant (all single operations and pairs, engines/hist/reader_hist.c), a base image with a "
           "directory index, ASan poisoning of the metadata reader's buffer tail (in-tree hook).",
    "C06": "Added: every listing also with all inodes in their extended representation (+xattr).",
    "C07": "Added: all sequences of <=3 (thorough 4) PAX keys in one header, all sequences of <=3 meta records (L, K, x, g) in front of each entry kind, PAX value "
           "alphabets with a correct length prefix.",
    "C08": "Added: sort-file flag configurations, three flushed fragment blocks followed by every sequence of <=2 (thorough 3) look-ups.",
    "C09": "Added: scheduling points before cond_wait and at API call boundaries, positive and negative failure status.",
    "C10": "Added: damaged fragment index/offset images, an image with a >64 KiB inode table, a DOT_ENTRIES directory reader, the low-level xattr walk with interleaved "
           "descriptor look-ups (must agree with read_all).",
    "C11": "Added: '.' and '..' take part in the permutation (permd): all (k+2)! orders per directory up to 720 (quick) / 5040 (thorough), else all single-displacement orders; "
           "a tree with UTF-8 / high-byte names.",
    "C13": "Added: scenarios with on-disk fragment dedup, glob input, PAX/xattr/sparse tar input, an archive larger than the stream buffer with a member ending on the "
           "buffer boundary, xattr dump.",
    "C14": "Added: fragment x xattr x export table combinations for both packers, overwrite of a larger pre-existing image (-f), every entry template on its own (thorough).",
    "C15": "Added: empty members (split at 0 / end / repeated offsets), truncation inside the second member of two-member streams, format detection with first members "
           "named like each compressor magic.",
    "C16": "Added: the full byte range in names and targets (every byte value first / last / middle / alone), device-number, mode and owner boundary sweeps.",
    "C17": "Added: compressible tails (compressed bit of fragment blocks observable), all ordered pairs over a 64-bit boundary alphabet of priorities.",
    "C19": "Added: an image whose inode references need more than 32 bits, further operation alphabets per reader kind (fragment + data block cached, path resolution, "
           "low-level xattr walk).",
}
EXTRA2 = {'C01': ' Later: --set-uid / --set-gid / defaults alone and combined, 65535/65536 distinct ids placed in uid only / gid only / last entry, rdsquashfs unpack status judged strictly. dense file > 4 GiB.', 'C02': " Later: 31-byte and (B-1)-byte identical tails, every history of <=2 (thorough 3) blocks through each of 13 compressor configurations (engines/hist/comp_hist.c: result equals a fresh compressor's), per-execution watchdog in the explorer (a spinning execution is a livelock violation), TSan pass over every compressor and option set. zero tails behind data blocks (schedule harness and CLI grid). compressor histories with the block processor's output capacity (block size); CLI input mixing incompressible and compressible blocks.", 'C04': ' Later: image-first phase with --subdir / --keep-as-dir / --root-becomes option sets on a tree with string-prefix sibling names; mtime of explicit entries for implicitly created directories. old-GNU sparse maps with 4..6 / 25..27 (thorough 45..49) entries.', 'C05': ' Later: base images with long symlink targets/names, without tail packing (small files as data blocks), NUL inside symlink targets, per-run hang limits with a cap of confirmed hangs.', 'C06': " Later: listings of four entries in all 24 orders, case-variant names, inode-type filter options with honest and lying entry types, 'mirror' images whose directories spell the absolute path of an outside object (xattr/chmod/utimens must stay inside). unpack roots that are not fresh (symlink / file / directory left under the image's name).", 'C08': ' Later: configurations with -e, -T, -B; runs longer than the compare buffer. holes (all-zero blocks) leading / inside / trailing in block runs.', 'C09': ' Later: block-processor scenarios at backlog 1, 2, 3 with compressor/writer failure at every call. 2 workers x 4 items in quick (gap in the done list at submit).', 'C10': ' Later: tails in different fragment blocks with streams consumed in pieces, corrupted compressed data / inode-table blocks in gensquashfs-written images (decompressor state), streams with interleaved positional reads. reads strictly inside compressed blocks, damaged second block. reload histories: fragment table / xattr reader / id table loaded again (genuine and 4 altered super blocks) between queries, reference = fresh readers that saw the reloads only.', 'C11': " Later: hidden names with hard links (T6). names beginning with '..' and names sorting around '.' and '..'.", 'C12': ' Added: long symlinks, big xattrs, files larger than the stream buffers, many-blocks inode, xattr dump; an undisturbed run that fails only in the controller build is compared with the plain build; per-plan hang limits. lock-step pipes (chunk handed over only after the tool blocked in read), pack file through /dev/stdin.', 'C13': ' Later: many-blocks inode (block-size list longer than a metadata block), big files through every tool. --no-tail-packing scenarios.', 'C14': " Later: the undisturbed image must hold exactly the input's file contents; dedup-truncate scenario (runs overlapping their own start). holes (leading / embedded / trailing) in the dedup-truncate scenario.", 'C15': ' Later: archives of odd-sized members larger than the staging buffers in both directions, input delivered in short reads (read caps 1..511 bytes).', 'C16': " Later: listings longer than the 128 KiB stream buffer with the interesting byte placed on the boundary; carriage return. names that begin or end with dots ('...', '..data', 'a..').", 'C17': ' Later: each flag with -T, flag leakage between neighbouring files (LEAK family), files whose partial last block is all zero x every flag x -T. export family: every subset of five hard links x -e / -e -T / sort file, every export entry validated.', 'C19': ' Later: an image with 600 xattr sets (second id block) read through copies. failed copies: the k-th allocation inside sqfs_copy fails, for every k. compressor kinds with every option at a non-default value.', 'C03': ' device block sizes that are not a power of two. directories with UTF-8 / high-byte names that have children, next to ASCII siblings.', 'C07': ' trailing garbage and second members behind every compressed wrapper.', 'C18': ' Added: tar2sqfs / sqfs2tar --root-becomes, rdsquashfs unpack path with attributes, tar2sqfs --exclude-dir (pattern and member name) funnels. path field of every pack-file line type (dir, slink, nod, pipe, sock, glob) with an exact-tree oracle.'}
for _pid, _txt in EXTRA2.items():
    EXTRA[_pid] = EXTRA.get(_pid, "Added:") + _txt
for _pid, _txt in EXTRA.items():
    CHECKS[_pid]["level_claimed"]["text"] += " " + _txt
