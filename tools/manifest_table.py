# table of built checks; exec'd by gen_manifest.py
NOTES = ("Every check rebuilds what it needs from /repo's working tree into a private scratch directory (removed on exit) "
         "and enumerates a bounded space exhaustively; capped runs report exhaustive:false and exit 0. "
         "known_findings.json lists genuine defects (open / fixed).")

ENGINES = [
    dict(name="SCHED", path="engines/sched", serves_properties=["C09", "C02", "C08"],
         kind_free_text="controlled scheduler over the real pthread call sites (force-included shim), stateless DFS explorer with one forked "
                        "process per execution, shared visited table (state-hash pruning), iterated preemption bound, 16 worker processes"),
    dict(name="STR", path="engines/str/canon_enum.c", serves_properties=["C18"],
         kind_free_text="in-process exhaustive enumerator of all strings up to a length bound against an independent specification"),
]

chk("C18", "STR", "exploration",
    "Bounded-exhaustive: every string up to length 10 (quick) / 12 (thorough) over {'/','.','a',0xE9} and larger alphabets at smaller "
    "lengths, plus periodic long strings (255..65537 bytes), is run through the real canonicalize_name/is_filename_sane and compared "
    "with an independent specification (return value, buffer, no growth, idempotence, cleanliness, no out-of-bounds write). "
    "The functions only distinguish '/', '.' and 'other', so the small alphabet covers every behaviour class up to the length bound.",
    "Trusts: ASan, the 20-line specification in canon_enum.c. Strings longer than the bound are only covered by the periodic family.",
    "bounded exhaustive enumeration of inputs against a reference model", "3/C18")

chk("C09", "SCHED", "model_checking",
    "Stateless model checking of the implementation: lib/util/src/threadpool.c is compiled unmodified with its pthread calls routed to a "
    "controlled scheduler; all interleavings at mutex/condvar/join granularity (plus a yield inside the callback, plus 0..2 spurious wake-ups) "
    "of 1..3 workers x 1..5 items x every failing position x 7 driver shapes are enumerated with preemption bounds 0,1,2 and then completely "
    "(small configurations) or to bound 2/3 (largest). Oracles: exactly-once, FIFO hand-back, per-worker context exclusivity, failure status "
    "surfaces, every call returns (deadlock/livelock detection), ASan clean. A free-running ThreadSanitizer pass complements it for unsynchronised accesses.",
    "Sync-operation granularity; memory-model effects below that only via TSan (sampling). State-hash pruning cross-validated against un-hashed "
    "bounded exploration on every run. Trusts the scheduler shim (engines/sched/vs.c).",
    "stateless model checking with preemption bounding and state-hash pruning (CHESS style) on the real code", "2.2, 3/C09")
