# table of built checks; exec'd by gen_manifest.py
NOTES = ("Every check rebuilds what it needs from /repo's working tree into a private scratch directory (removed on exit) "
         "and enumerates a bounded space exhaustively; capped runs report exhaustive:false and exit 0. "
         "known_findings.json lists genuine defects (open / fixed).")

ENGINES = [
    dict(name="STR", path="engines/str/canon_enum.c", serves_properties=["C18"],
         kind_free_text="in-process exhaustive enumerator of all strings up to a length bound against an independent specification"),
]

chk("C18", "STR", "exploration",
    "Bounded-exhaustive: every string up to length 10 (quick) / 12 (thorough) over {'/','.','a',0xE9} and larger alphabets at smaller "
    "lengths, plus periodic long strings (255..65537 bytes), is run through the real canonicalize_name/is_filename_sane and compared "
    "with an independent specification (return value, buffer, no growth, idempotence, cleanliness, no out-of-bounds write). "
    "The functions only distinguish '/', '.' and 'other', so the small alphabet covers every behaviour class up to the length bound.",
    "Trusts: ASan, the 20-line specification in canon_enum.c. Strings longer than the bound are only covered by the periodic family.",
    "bounded exhaustive enumeration of inputs against a reference model", "3/C18")
