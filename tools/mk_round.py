#!/usr/bin/env python3
"""mk_round.py <round-suffix> <ids...>: writes /tmp/agent_prompt_<ID><suffix>.txt for a further seeded-change round; the note lists the sites earlier rounds used"""
import json, glob, sys
suffix, ids = sys.argv[1], sys.argv[2:]
tmpl = open('/verif/tools/seed_agent_prompt.txt').read()
sites = {}
for f in sorted(glob.glob('/verif/seeded/*/meta.json')):
    m = json.load(open(f))
    sites.setdefault(m['property'], []).append(m['change'].split(':')[0])
props = {json.loads(l)['id']: json.loads(l) for l in open('/verif/properties.jsonl')}
for pid in ids:
    p = props[pid]
    text = "%s — %s\n\n%s\n\nQuantifier: %s" % (pid, p['title'], p['statement'], p['quantifier']['text'])
    s = tmpl.replace("WT", "/tmp/wt_%s%s" % (pid, suffix)).replace("PROPERTY_TEXT", text)
    used = "; ".join(sorted(set(sites.get(pid, []))))
    s += "\n\nNote: earlier experiments already used these sites: %s. Change something in a DIFFERENT function (preferably a different file), and prefer a mechanism of a different kind than an off-by-one in those places (e.g. stale state across calls, a boundary of a different field, an error path, an interaction between two options).\n" % used
    open('/tmp/agent_prompt_%s%s.txt' % (pid, suffix), 'w').write(s)
print("ok", ids)
