#!/bin/sh
# try_seed.sh <seed-id> <check-id> [tier]: applies a seeded change to /repo, runs the check, reverts
id=$1; chk=$2; tier=${3:-quick}
cd /repo && git status --short | grep -q . && { echo "/repo not clean"; exit 2; }
git -C /repo apply /verif/seeded/$id/patch.diff || exit 2
cd /verif && timeout 3000 ./check $chk --tier $tier > /tmp/try_$id.$chk.log 2>&1; rc=$?
git -C /repo checkout -- . 
echo "seed $id under $chk ($tier): exit $rc"
grep -A2 "^VIOLATION" /tmp/try_$id.$chk.log | cut -c1-260 | head -12
tail -1 /tmp/try_$id.$chk.log | cut -c1-200
