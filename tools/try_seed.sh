#!/bin/sh
# try_seed.sh <seed-id> <check-id> [tier]: runs a check against a scratch worktree of /repo with the seeded change applied
# (VERIF_REPO points the build driver at it; /repo itself is not touched, so this can run next to other checks).
# The evidence file of the check is saved and restored, the run's own evidence goes to /tmp/try_<seed>.<check>.evidence.json
id=$1; chk=$2; tier=${3:-quick}
wt=/tmp/seedtry_${id}_${chk}_$$
git -C /repo worktree add -q --detach "$wt" HEAD || exit 2
git -C "$wt" apply /verif/seeded/$id/patch.diff || { git -C /repo worktree remove --force "$wt"; exit 2; }
cp /repo/config.h "$wt/config.h" 2>/dev/null
cd /verif
cp evidence/$chk.json /tmp/try_keep_$$.json 2>/dev/null
VERIF_REPO="$wt" timeout 6000 ./check $chk --tier $tier > /tmp/try_$id.$chk.log 2>&1; rc=$?
cp evidence/$chk.json /tmp/try_$id.$chk.evidence.json 2>/dev/null
cp /tmp/try_keep_$$.json evidence/$chk.json 2>/dev/null; rm -f /tmp/try_keep_$$.json
git -C /repo worktree remove --force "$wt"
echo "seed $id under $chk ($tier): exit $rc"
grep -A2 "^VIOLATION" /tmp/try_$id.$chk.log | cut -c1-260 | head -12
tail -1 /tmp/try_$id.$chk.log | cut -c1-200
