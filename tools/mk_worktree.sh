#!/bin/sh
# creates a buildable scratch worktree of /repo under /tmp/wt_<name>
set -e
d=/tmp/wt_$1
git -C /repo worktree add -q --detach "$d" HEAD
cd "$d"
./autogen.sh >/dev/null 2>&1
./configure >/dev/null 2>&1
make -j8 >/dev/null 2>&1
make -j8 check >/dev/null 2>&1 || true
grep -E "^# (TOTAL|PASS|FAIL)" test-suite.log | tr '\n' ' '
echo " -> $d"
