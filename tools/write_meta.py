#!/usr/bin/env python3
"""write_meta.py <seed-id> <round> <change> <needs_to_manifest> <detection>: turns seeded/<id>/verify.json (from harvest_seed.sh) into meta.json"""
import json, os, sys
sid, rnd, chg, needs, det = sys.argv[1:6]
d = '/verif/seeded/' + sid
v = json.load(open(d + '/verify.json'))
json.dump({"seed": sid, "property": sid.split('-')[0], "change": chg, "needs_to_manifest": needs,
           "produced_by": "independent sub-agent given only the property text and a scratch worktree (round %s: told which sites the earlier rounds had used)" % rnd,
           "verified": {"repo_test_suite_with_change": v["suite"].strip(), "demo_exit_with_change": v["demo_rc_with_change"],
                        "demo_exit_without_change": v["demo_rc_without_change"],
                        "how": "tools/harvest_seed.sh in the agent's worktree (make check; demo with change; git apply -R; demo without change)"},
           "detection": det}, open(d + '/meta.json', 'w'), indent=1)
os.unlink(d + '/verify.json')
print("meta written for", sid)
