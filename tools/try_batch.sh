#!/bin/bash
# try_batch.sh <parallel> <seed:check>... : runs try_seed.sh for each pair, <parallel> at a time (different checks only); results in /tmp/tryout_<seed>.<check>.txt
P=$1; shift
for sc in "$@"; do
  s=${sc%%:*}; c=${sc##*:}
  while [ $(jobs -r | wc -l) -ge $P ]; do sleep 2; done
  /verif/tools/try_seed.sh $s $c quick > /tmp/tryout_$s.$c.txt 2>&1 &
done
wait
for sc in "$@"; do s=${sc%%:*}; c=${sc##*:}; head -4 /tmp/tryout_$s.$c.txt | cut -c1-250; tail -1 /tmp/tryout_$s.$c.txt | cut -c1-160; done
