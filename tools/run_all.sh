#!/bin/sh
# run_all.sh <tier> [ids...] : runs the checks one after another, prints one line per check
tier=${1:-quick}; shift
ids=${@:-C01 C02 C03 C04 C05 C06 C07 C08 C09 C10 C11 C12 C13 C14 C15 C16 C17 C18 C19}
cd /verif
for id in $ids; do
  s=$(date +%s)
  ./check $id --tier $tier > /tmp/runall_$id.$tier.log 2>&1; rc=$?
  e=$(date +%s)
  echo "$id $tier rc=$rc $((e-s))s $(grep -c '^VIOLATION' /tmp/runall_$id.$tier.log) violations $(grep -c '^KNOWN-FINDING' /tmp/runall_$id.$tier.log) known | $(tail -1 /tmp/runall_$id.$tier.log | cut -c1-150)"
done
