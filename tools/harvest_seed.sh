#!/bin/sh
# harvest_seed.sh <worktree-name> <seed-id> : verifies an agent's seeded change in its worktree and copies it to /verif/seeded/<seed-id>
wt=/tmp/wt_$1; id=$2
cd "$wt" || exit 2
demo=$(ls seeded_demo/*.sh 2>/dev/null | head -1); runner=bash
[ -n "$demo" ] || { demo=$(ls seeded_demo/*.py 2>/dev/null | head -1); runner=python3; }
[ -n "$demo" ] || { echo "no demo script"; exit 2; }
git diff -- . ':!seeded_demo' > /tmp/harvest_$id.diff
echo "== diff stat:"; git diff --stat -- . ':!seeded_demo' | tail -3
if ! diff -q /tmp/harvest_$id.diff seeded_demo/patch.diff >/dev/null 2>&1; then echo "NOTE: worktree diff differs from seeded_demo/patch.diff (using the worktree diff)"; fi
make -j8 >/dev/null 2>&1; make -j8 check >/dev/null 2>&1
suite=$(grep -E "^# (PASS|FAIL|ERROR)" test-suite.log | tr '\n' ' ')
echo "== suite with change: $suite"
timeout 900 $runner "$demo" > /tmp/harvest_$id.with.log 2>&1; rc_with=$?
git apply -R /tmp/harvest_$id.diff && make -j8 >/dev/null 2>&1
timeout 900 $runner "$demo" > /tmp/harvest_$id.without.log 2>&1; rc_without=$?
git apply /tmp/harvest_$id.diff && make -j8 >/dev/null 2>&1
echo "== demo with change: rc=$rc_with ; without: rc=$rc_without"
tail -2 /tmp/harvest_$id.with.log
mkdir -p /verif/seeded/$id
cp /tmp/harvest_$id.diff /verif/seeded/$id/patch.diff
mkdir -p /verif/seeded/$id/demo; cp -r seeded_demo/* /verif/seeded/$id/demo/ 2>/dev/null
rm -f /verif/seeded/$id/demo/*.log /verif/seeded/$id/demo/*.so /verif/seeded/$id/demo/*.o
find /verif/seeded/$id/demo -type f -size +200k -delete
find /verif/seeded/$id/demo -depth -type d \( -name "work*" -o -name build \) -exec rm -rf {} + 2>/dev/null
find /verif/seeded/$id/demo -type f \( -name "*.sqfs" -o -name "*.so" -o -name "*.o" \) -delete
echo "{\"suite\": \"$suite\", \"demo_rc_with_change\": $rc_with, \"demo_rc_without_change\": $rc_without}" > /verif/seeded/$id/verify.json
