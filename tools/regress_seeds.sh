#!/bin/bash
# regress_seeds.sh [parallel] : re-runs every seeded change under the quick tier of its own property's check (scratch worktrees,
# /repo untouched). One stream per property (a check's evidence file is saved/restored by try_seed.sh), <parallel> streams at a time.
# Output: /tmp/regress_seeds.txt, one line per seed: "<seed> exit=<rc> <first fingerprint>"
P=${1:-4}
cd /verif
# seeds listed in $SKIP_FILE (first column) are skipped; SKIP_ROUNDS="6 7" skips whole rounds
: > /tmp/regress_seeds.txt
one() {
  id=$1
  for d in seeded/$id-*; do
    s=$(basename $d)
    [ -n "$SKIP_FILE" ] && grep -q "^$s " "$SKIP_FILE" && continue
    skip=0; for r in $SKIP_ROUNDS; do [ "${s##*-}" = "$r" ] && skip=1; done; [ $skip = 1 ] && continue
    tools/try_seed.sh $s $id quick > /tmp/regress_$s.out 2>&1
    rc=$(sed -n 's/.*: exit \([0-9]*\)$/\1/p' /tmp/regress_$s.out | head -1)
    fp=$(grep -m1 "fingerprint:" /tmp/regress_$s.out | cut -c1-120)
    echo "$s exit=$rc $fp" >> /tmp/regress_seeds.txt
  done
}
for id in C02 C05 C09 C03 C01 C08 C07 C11 C12 C06 C04 C10 C13 C14 C15 C16 C17 C18 C19; do
  while [ $(jobs -r | wc -l) -ge $P ]; do sleep 2; done
  one $id &
done
wait
sort /tmp/regress_seeds.txt
