#!/bin/bash
# thorough_sweep.sh : final thorough runs in three streams; one line per check in /tmp/thorough_sweep.txt
cd /verif
: > /tmp/thorough_sweep.txt
one() { id=$1; shift; s=$(date +%s); ./check $id --tier thorough "$@" > /tmp/thor_$id.log 2>&1; rc=$?; e=$(date +%s)
  echo "$id thorough rc=$rc $((e-s))s $(grep -c '^VIOLATION' /tmp/thor_$id.log) violations $(grep -c '^KNOWN-FINDING' /tmp/thor_$id.log) known | $(tail -1 /tmp/thor_$id.log | cut -c1-150)" >> /tmp/thorough_sweep.txt; }
( one C02 --budget 3600; for i in C13 C14 C16 C18 C04 C12 C10; do one $i; done ) &
( one C09 --budget 4200; for i in C17 C15; do one $i; done ) &
( one C05 --budget 3600; for i in C08 C07 C01 C06 C11 C03 C19; do one $i; done ) &
wait
echo ALLDONE >> /tmp/thorough_sweep.txt
