#!/usr/bin/env python3-vt
import json, jsonschema, glob, sys
ok = True
m = json.load(open('/verif/MANIFEST.json'))
jsonschema.validate(m, json.load(open('/root/.vp/MANIFEST.schema.json')))
print("MANIFEST ok")
es = json.load(open('/root/.vp/EVIDENCE.schema.json'))
for c in m['checks']:
    p = '/verif/' + c['evidence_file']
    try:
        e = json.load(open(p)); jsonschema.validate(e, es)
        assert e['level'] == c['level_claimed']['category'], "level mismatch %s vs %s" % (e['level'], c['level_claimed']['category'])
        print(p, "ok", e['tier'], e['coverage'].get('evaluations'), e['coverage'].get('distinct_nontrivial'), "viol", e.get('violations'))
    except Exception as ex:
        ok = False; print(p, "INVALID", str(ex)[:300])
sys.exit(0 if ok else 1)
