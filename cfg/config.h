/* config.h.  Generated from config.h.in by configure.  */
/* config.h.in.  Generated from configure.ac by autoheader.  */

/* Define to 1 if you have the <alloca.h> header file. */
#define HAVE_ALLOCA_H 1

/* Define to 1 if you have the <bzlib.h> header file. */
#define HAVE_BZLIB_H 1

/* Define to 1 if you have the <dlfcn.h> header file. */
#define HAVE_DLFCN_H 1

/* Define to 1 if you have the `fnmatch' function. */
#define HAVE_FNMATCH 1

/* Define to 1 if you have the `getopt' function. */
#define HAVE_GETOPT 1

/* Define to 1 if you have the `getopt_long' function. */
#define HAVE_GETOPT_LONG 1

/* Define to 1 if you have the `getsubopt' function. */
#define HAVE_GETSUBOPT 1

/* Define to 1 if you have the <inttypes.h> header file. */
#define HAVE_INTTYPES_H 1

/* Have PTHREAD_PRIO_INHERIT. */
#define HAVE_PTHREAD_PRIO_INHERIT 1

/* Define to 1 if you have the `sched_getaffinity' function. */
#define HAVE_SCHED_GETAFFINITY 1

/* Define to 1 if you have the <selinux/label.h> header file. */
#define HAVE_SELINUX_LABEL_H 1

/* Define to 1 if you have the <selinux/selinux.h> header file. */
#define HAVE_SELINUX_SELINUX_H 1

/* Define to 1 if you have the <stdint.h> header file. */
#define HAVE_STDINT_H 1

/* Define to 1 if you have the <stdio.h> header file. */
#define HAVE_STDIO_H 1

/* Define to 1 if you have the <stdlib.h> header file. */
#define HAVE_STDLIB_H 1

/* Define to 1 if you have the `strchrnul' function. */
#define HAVE_STRCHRNUL 1

/* Define to 1 if you have the <strings.h> header file. */
#define HAVE_STRINGS_H 1

/* Define to 1 if you have the <string.h> header file. */
#define HAVE_STRING_H 1

/* Define to 1 if you have the `strndup' function. */
#define HAVE_STRNDUP 1

/* Define to 1 if you have the <sys/stat.h> header file. */
#define HAVE_SYS_STAT_H 1

/* Define to 1 if you have the <sys/types.h> header file. */
#define HAVE_SYS_TYPES_H 1

/* Define to 1 if you have the <sys/xattr.h> header file. */
#define HAVE_SYS_XATTR_H 1

/* Define to 1 if you have the <unistd.h> header file. */
#define HAVE_UNISTD_H 1

/* Does zstd support stream compression? */
#define HAVE_ZSTD_STREAM 1

/* Define to the sub-directory where libtool stores uninstalled libraries. */
#define LT_OBJDIR ".libs/"

/* Name of package */
#define PACKAGE "squashfs-tools-ng"

/* Define to the address where bug reports for this package should be sent. */
#define PACKAGE_BUGREPORT "goliath@infraroot.at"

/* Define to the full name of this package. */
#define PACKAGE_NAME "squashfs-tools-ng"

/* Define to the full name and version of this package. */
#define PACKAGE_STRING "squashfs-tools-ng 1.2.0"

/* Define to the one symbol short name of this package. */
#define PACKAGE_TARNAME "squashfs-tools-ng"

/* Define to the home page for this package. */
#define PACKAGE_URL ""

/* Define to the version of this package. */
#define PACKAGE_VERSION "1.2.0"

/* Define to necessary symbol if this constant uses a non-standard name on
   your system. */
/* #undef PTHREAD_CREATE_JOINABLE */

/* Define to 1 if all of the C90 standard headers exist (not just the ones
   required in a freestanding environment). This macro is provided for
   backward compatibility; new code need not use it. */
#define STDC_HEADERS 1

/* Version number of package */
#define VERSION "1.2.0"

/* Number of bits in a file offset, on hosts where this is settable. */
/* #undef _FILE_OFFSET_BITS */

/* Define for large files, on AIX-style hosts. */
/* #undef _LARGE_FILES */
