/* C18: exhaustive enumeration of strings over a small alphabet against an
 * independently written specification of canonicalize_name / is_filename_sane.
 *
 * usage: canon_enum <alphabet-hex> <maxlen> [period-mode]
 * Prints one JSON object; exit 0 = all agree, 1 = mismatch (first mismatch printed).
 */
#include <stdio.h>
#include <stdlib.h>
#include <string.h>
#include <stdbool.h>
#include <stdint.h>

int canonicalize_name(char *filename);
bool is_filename_sane(const char *name, bool check_os_specific);

#define GUARD 16
static unsigned long long n_eval, n_fail, n_changed, n_same, n_mismatch;
static char first_bad[4096];

/* --- specification, written from the property text only --- */
/* split on '/', drop empty and "." components; fail iff some component is "..";
 * else join with '/'. Returns -1 on failure, else length written to out. */
static long spec_canon(const char *in, size_t len, char *out)
{
	size_t i = 0, o = 0;
	bool first = true;
	for (size_t k = 0; k <= len; ++k) {
		if (k == len || in[k] == '/') {
			size_t cl = k - i;
			const char *c = in + i;
			if (cl == 2 && c[0] == '.' && c[1] == '.')
				return -1;
			if (cl != 0 && !(cl == 1 && c[0] == '.')) {
				if (!first)
					out[o++] = '/';
				memcpy(out + o, c, cl);
				o += cl;
				first = false;
			}
			i = k + 1;
		}
	}
	out[o] = '\0';
	return (long)o;
}

static bool spec_sane(const char *s)
{
	if (strcmp(s, ".") == 0 || strcmp(s, "..") == 0)
		return false;
	return strchr(s, '/') == NULL;
}

static bool shape_ok(const char *s)
{
	size_t n = strlen(s);
	if (n == 0)
		return true;
	if (s[0] == '/' || s[n - 1] == '/')
		return false;
	if (strstr(s, "//"))
		return false;
	/* no "." component */
	const char *p = s;
	while (*p) {
		const char *e = strchr(p, '/');
		size_t cl = e ? (size_t)(e - p) : strlen(p);
		if (cl == 1 && p[0] == '.')
			return false;
		if (cl == 2 && p[0] == '.' && p[1] == '.')
			return false;
		if (!e)
			break;
		p = e + 1;
	}
	return true;
}

static void hexs(const char *s, size_t n, char *out, size_t outsz)
{
	size_t o = 0;
	for (size_t i = 0; i < n && o + 4 < outsz; ++i)
		o += (size_t)snprintf(out + o, outsz - o, "%02x", (unsigned char)s[i]);
	out[o] = 0;
}

static void bad(const char *s, size_t len, const char *why)
{
	if (n_mismatch++ == 0) {
		char hx[2100];
		hexs(s, len > 1000 ? 1000 : len, hx, sizeof(hx));
		snprintf(first_bad, sizeof(first_bad), "{\"len\":%zu,\"hex\":\"%s\",\"why\":\"%s\"}", len, hx, why);
	}
}

static void check_one(const char *s, size_t len)
{
	static char *buf, *exp, *buf2;
	static size_t cap;
	if (len + 2 * GUARD + 8 > cap) {
		cap = (len + 2 * GUARD + 8) * 2;
		buf = realloc(buf, cap);
		exp = realloc(exp, cap);
		buf2 = realloc(buf2, cap);
	}
	++n_eval;
	memset(buf, 0xA5, len + 1 + 2 * GUARD);
	char *w = buf + GUARD;
	memcpy(w, s, len);
	w[len] = '\0';
	int rc = canonicalize_name(w);
	long el = spec_canon(s, len, exp);

	/* guards: never writes before the buffer or past the original terminator */
	for (int i = 0; i < GUARD; ++i) {
		if ((unsigned char)buf[i] != 0xA5 || (unsigned char)w[len + 1 + i] != 0xA5) {
			bad(s, len, "wrote outside [start, terminator]");
			return;
		}
	}
	if (el < 0) {
		++n_fail;
		if (rc == 0)
			bad(s, len, "accepted a path with a '..' component");
	} else {
		if (rc != 0) {
			bad(s, len, "refused a path without '..' component");
			return;
		}
		size_t ol = strnlen(w, len + 1);
		if (ol > len) { bad(s, len, "result longer than input / unterminated"); return; }
		if ((long)ol != el || memcmp(w, exp, ol) != 0) { bad(s, len, "result differs from specification"); return; }
		if (!shape_ok(w)) { bad(s, len, "result not clean"); return; }
		if (ol == len && memcmp(w, s, len) == 0) ++n_same; else ++n_changed;
		/* idempotence */
		memcpy(buf2, w, ol + 1);
		if (canonicalize_name(buf2) != 0 || strcmp(buf2, w) != 0)
			bad(s, len, "not idempotent");
	}
	/* sanity test, both flag values (non-Windows build: flag has no effect) */
	memcpy(buf2, s, len); buf2[len] = 0;
	bool e = spec_sane(buf2);
	if (is_filename_sane(buf2, false) != e) bad(s, len, "is_filename_sane(s,false) differs from specification");
	if (is_filename_sane(buf2, true) != e) bad(s, len, "is_filename_sane(s,true) differs from specification");
}

int main(int argc, char **argv)
{
	if (argc < 3) return 2;
	unsigned char alpha[32]; int na = 0;
	for (const char *p = argv[1]; p[0] && p[1] && na < 32; p += 2) {
		unsigned v; sscanf(p, "%2x", &v); alpha[na++] = (unsigned char)v;
	}
	int maxlen = atoi(argv[2]);
	int period = argc > 3 ? atoi(argv[3]) : 0;
	char s[64];
	int idx[64];

	if (!period) {
		for (int len = 0; len <= maxlen; ++len) {
			memset(idx, 0, sizeof(idx));
			for (;;) {
				for (int i = 0; i < len; ++i) s[i] = (char)alpha[idx[i]];
				check_one(s, (size_t)len);
				int k = len - 1;
				while (k >= 0 && ++idx[k] == na) idx[k--] = 0;
				if (k < 0) break;
			}
		}
	} else {
		/* every string of length 1..maxlen repeated (and cut) to each long length */
		static const size_t longs[] = {255, 256, 257, 4096, 65537};
		char *big = malloc(70000);
		for (int len = 1; len <= maxlen; ++len) {
			memset(idx, 0, sizeof(idx));
			for (;;) {
				for (int i = 0; i < len; ++i) s[i] = (char)alpha[idx[i]];
				for (size_t li = 0; li < sizeof(longs) / sizeof(longs[0]); ++li) {
					for (size_t j = 0; j < longs[li]; ++j) big[j] = s[j % (size_t)len];
					check_one(big, longs[li]);
				}
				int k = len - 1;
				while (k >= 0 && ++idx[k] == na) idx[k--] = 0;
				if (k < 0) break;
			}
		}
	}
	printf("{\"evaluations\":%llu,\"refused\":%llu,\"rewritten\":%llu,\"unchanged\":%llu,\"mismatches\":%llu,\"first_bad\":%s}\n",
	       n_eval, n_fail, n_changed, n_same, n_mismatch, n_mismatch ? first_bad : "null");
	return n_mismatch ? 1 : 0;
}
