/* HIST — API-history exploration of the libsquashfs readers (C10).
 * State = the operation history; live objects are not copied, every history is replayed on fresh readers.
 * For every history h.op the answer of op must equal the answer op gives on fresh readers.
 *
 * usage: reader_hist <image> <opsfile> <mode> [args]
 *   mode "enum <depth> <first_lo> <first_hi>": all histories of length 1..depth whose first op index is in [lo,hi)
 *   mode "bfs": breadth-first closure over the meta-reader ops only (dedup on the reader's private state)
 *   mode "reload <depth> <first_lo> <first_hi>": histories with table reloads between queries, compared with fresh readers that saw the reloads only
 *   mode "agree": stream / positional read / per-block access agree on every 'file' op target
 * ops file, one op per line:
 *   inode <ref>            readdir <dirref>        path <rootref> <path>
 *   read <ref> <off> <len> block <ref> <idx>       frag <ref>       stream <ref>
 *   reload <table 0..2> <variant 0..4>  (load the fragment / xattr / id table again, from the genuine or an altered super block)
 *   xattr <idx>            id <idx>                mseek <absblock> <off> <n>   (meta reader: seek then read n bytes)
 */
#include "lib/sqfs/src/meta_reader.c"

#include "sqfs/super.h"
#include "sqfs/dir_reader.h"
#include "sqfs/data_reader.h"
#include "sqfs/xattr_reader.h"
#include "sqfs/id_table.h"
#include "sqfs/inode.h"
#include "sqfs/dir.h"
#include "sqfs/xattr.h"
#include "sqfs/io.h"

#include <stdio.h>
#include <stdint.h>

#define MAXOPS 64
#define MAXDEPTH 8

typedef struct { char kind[12]; uint64_t a, b, c; char str[256]; } op_t;
typedef struct { int status; uint64_t hash; } ans_t;

typedef struct {
	sqfs_file_t *file;
	sqfs_super_t super;
	sqfs_compressor_t *cmp;
	sqfs_dir_reader_t *dr;
	sqfs_dir_reader_t *dre;       /* same, created with SQFS_DIR_READER_DOT_ENTRIES */
	sqfs_data_reader_t *data;
	sqfs_xattr_reader_t *xr;
	sqfs_id_table_t *idtbl;
	sqfs_meta_reader_t *mr;
} readers_t;

static op_t ops[MAXOPS];
static int nops;
static const char *image;

static uint64_t fnv(uint64_t h, const void *p, size_t n)
{
	const unsigned char *b = p;
	for (size_t i = 0; i < n; ++i) { h ^= b[i]; h *= 1099511628211ULL; }
	return h;
}
#define H0 1469598103934665603ULL

/* same, for memory that the verification hook in meta_reader.c may have poisoned (the buffer tail behind data_used) */
__attribute__((no_sanitize("address"))) static uint64_t fnv_raw(uint64_t h, const void *p, size_t n)
{
	const unsigned char *b = p;
	for (size_t i = 0; i < n; ++i) { h ^= b[i]; h *= 1099511628211ULL; }
	return h;
}

static int make_readers(readers_t *r)
{
	sqfs_compressor_config_t cfg;
	int ret;
	memset(r, 0, sizeof(*r));
	ret = sqfs_file_open(&r->file, image, SQFS_FILE_OPEN_READ_ONLY);
	if (ret) return ret;
	ret = sqfs_super_read(&r->super, r->file);
	if (ret) return ret;
	sqfs_compressor_config_init(&cfg, r->super.compression_id, r->super.block_size, SQFS_COMP_FLAG_UNCOMPRESS);
	ret = sqfs_compressor_create(&cfg, &r->cmp);
	if (ret) return ret;
	r->dr = sqfs_dir_reader_create(&r->super, r->cmp, r->file, 0);
	r->dre = sqfs_dir_reader_create(&r->super, r->cmp, r->file, SQFS_DIR_READER_DOT_ENTRIES);
	r->data = sqfs_data_reader_create(r->file, r->super.block_size, r->cmp, 0);
	r->xr = sqfs_xattr_reader_create(0);
	r->idtbl = sqfs_id_table_create(0);
	r->mr = sqfs_meta_reader_create(r->file, r->cmp, 0, r->super.bytes_used);
	if (!r->dr || !r->dre || !r->data || !r->xr || !r->idtbl || !r->mr) return SQFS_ERROR_ALLOC;
	/* table loads may fail on damaged images: the readers then answer with errors, which is an answer too */
	sqfs_data_reader_load_fragment_table(r->data, &r->super);
	sqfs_xattr_reader_load(r->xr, &r->super, r->file, r->cmp);
	sqfs_id_table_read(r->idtbl, r->file, &r->super, r->cmp);
	return 0;
}

static void drop_readers(readers_t *r)
{
	sqfs_drop(r->mr); sqfs_drop(r->idtbl); sqfs_drop(r->xr); sqfs_drop(r->data); sqfs_drop(r->dr); sqfs_drop(r->dre); sqfs_drop(r->cmp); sqfs_drop(r->file);
}

static uint64_t hash_inode(const sqfs_inode_generic_t *n)
{
	uint64_t h = fnv(H0, &n->base, sizeof(n->base));
	h = fnv(h, &n->data, sizeof(n->data));
	h = fnv(h, &n->payload_bytes_used, sizeof(n->payload_bytes_used));
	h = fnv(h, n->extra, n->payload_bytes_used);
	return h;
}

static ans_t exec_op(readers_t *r, const op_t *op)
{
	ans_t a = { 0, H0 };
	sqfs_inode_generic_t *ino = NULL;

	if (!strcmp(op->kind, "inode")) {
		a.status = sqfs_dir_reader_get_inode(r->dr, op->a, &ino);
		if (a.status == 0) a.hash = hash_inode(ino);
	} else if (!strcmp(op->kind, "readdir")) {
		a.status = sqfs_dir_reader_get_inode(r->dr, op->a, &ino);
		if (a.status == 0) {
			sqfs_dir_reader_state_t st;
			a.status = sqfs_dir_reader_open_dir(r->dr, ino, &st, 0);
			while (a.status == 0) {
				sqfs_dir_node_t *ent = NULL;
				int ret = sqfs_dir_reader_read(r->dr, &st, &ent);
				if (ret != 0) { if (ret < 0) a.status = ret; break; }
				a.hash = fnv(a.hash, ent, sizeof(*ent) + ent->size + 1);
				a.hash = fnv(a.hash, &st.ent_ref, sizeof(st.ent_ref));
				sqfs_free(ent);
			}
		}
	} else if (!strcmp(op->kind, "path")) {
		sqfs_u64 out = 0;
		a.status = sqfs_dir_reader_get_inode(r->dr, op->a, &ino);
		if (a.status == 0) {
			a.status = sqfs_dir_reader_resolve_path(r->dr, op->str, ino, &out);
			a.hash = fnv(a.hash, &out, sizeof(out));
		}
	} else if (!strcmp(op->kind, "read")) {
		a.status = sqfs_dir_reader_get_inode(r->dr, op->a, &ino);
		if (a.status == 0) {
			sqfs_u8 *buf = calloc(1, op->c + 1);
			sqfs_s32 n = sqfs_data_reader_read(r->data, ino, op->b, buf, (sqfs_u32)op->c);
			a.status = n < 0 ? n : 0;
			if (n >= 0) { a.hash = fnv(a.hash, &n, sizeof(n)); a.hash = fnv(a.hash, buf, (size_t)n); }
			free(buf);
		}
	} else if (!strcmp(op->kind, "block") || !strcmp(op->kind, "frag")) {
		a.status = sqfs_dir_reader_get_inode(r->dr, op->a, &ino);
		if (a.status == 0) {
			size_t sz = 0; sqfs_u8 *out = NULL;
			if (op->kind[0] == 'b')
				a.status = sqfs_data_reader_get_block(r->data, ino, (size_t)op->b, &sz, &out);
			else
				a.status = sqfs_data_reader_get_fragment(r->data, ino, &sz, &out);
			if (a.status == 0) { a.hash = fnv(a.hash, &sz, sizeof(sz)); if (out) a.hash = fnv(a.hash, out, sz); }
			sqfs_free(out);
		}
	} else if (!strcmp(op->kind, "stream")) {
		a.status = sqfs_dir_reader_get_inode(r->dr, op->a, &ino);
		if (a.status == 0) {
			sqfs_istream_t *s = NULL;
			a.status = sqfs_data_reader_create_stream(r->data, ino, "f", &s);
			while (a.status == 0) {
				const sqfs_u8 *p; size_t n;
				int ret = s->get_buffered_data(s, &p, &n, 1);
				if (ret != 0) { if (ret < 0) a.status = ret; break; }
				a.hash = fnv(a.hash, p, n);
				s->advance_buffer(s, n);
			}
			sqfs_drop(s);
		}
	} else if (!strcmp(op->kind, "streami")) {
		/* stream of file op->a consumed in pieces of 1000 bytes; between two pieces 10 bytes at offset op->c of file op->b are read through
		 * the positional API of the same data reader (another fragment / data block enters the reader's caches). The hash covers only the
		 * bytes of file op->a, in the same way as the "stream" operation, so both answers are comparable. */
		sqfs_inode_generic_t *other = NULL;
		a.status = sqfs_dir_reader_get_inode(r->dr, op->a, &ino);
		if (a.status == 0 && sqfs_dir_reader_get_inode(r->dr, op->b, &other) != 0) other = NULL;
		if (a.status == 0) {
			sqfs_istream_t *s = NULL;
			a.status = sqfs_data_reader_create_stream(r->data, ino, "f", &s);
			while (a.status == 0) {
				const sqfs_u8 *p; size_t n;
				int ret = s->get_buffered_data(s, &p, &n, 1);
				if (ret != 0) { if (ret < 0) a.status = ret; break; }
				if (n > 1000) n = 1000;
				if (other != NULL) {
					sqfs_u8 tmp[16];
					(void)sqfs_data_reader_read(r->data, other, op->c, tmp, 10);
				}
				a.hash = fnv(a.hash, p, n);       /* p was handed out before the interleaved read and is still the caller's to use */
				s->advance_buffer(s, n);
			}
			sqfs_drop(s);
		}
		sqfs_free(other);
	} else if (!strcmp(op->kind, "xattr")) {
		/* pairs are combined order-insensitively so that this answer is comparable with the low-level walk below */
		sqfs_xattr_t *l = NULL;
		a.status = sqfs_xattr_reader_read_all(r->xr, (sqfs_u32)op->a, &l);
		a.hash = 0;
		for (sqfs_xattr_t *it = l; a.status == 0 && it != NULL; it = it->next) {
			uint64_t h = fnv(H0, it->key, strlen(it->key));
			a.hash += fnv(h, it->value, it->value_len);
		}
		sqfs_xattr_list_free(l);
	} else if (!strcmp(op->kind, "xwalk")) {
		/* the same set through the low-level API: get_desc, seek_kv, (read_key, read_value)*; with op->b != 4294967295 an unrelated
		 * descriptor lookup (set op->b, possibly out of range) is interleaved after every key and every value */
		sqfs_xattr_id_t desc, other;
		a.hash = 0;
		a.status = sqfs_xattr_reader_get_desc(r->xr, (sqfs_u32)op->a, &desc);
		if (a.status == 0) a.status = sqfs_xattr_reader_seek_kv(r->xr, &desc);
		for (sqfs_u32 i = 0; a.status == 0 && i < desc.count; ++i) {
			sqfs_xattr_entry_t *key = NULL;
			sqfs_xattr_value_t *val = NULL;
			a.status = sqfs_xattr_reader_read_key(r->xr, &key);
			if (a.status) break;
			if (op->b != 4294967295ULL) (void)sqfs_xattr_reader_get_desc(r->xr, (sqfs_u32)op->b, &other);
			a.status = sqfs_xattr_reader_read_value(r->xr, key, &val);
			if (a.status == 0) {
				uint64_t h = fnv(H0, key->key, strlen((const char *)key->key));
				a.hash += fnv(h, val->value, val->size);
			}
			if (op->b != 4294967295ULL) (void)sqfs_xattr_reader_get_desc(r->xr, (sqfs_u32)op->b, &other);
			sqfs_free(key); sqfs_free(val);
		}
	} else if (!strcmp(op->kind, "inodedot")) {
		a.status = sqfs_dir_reader_get_inode(r->dre, op->a, &ino);
		if (a.status == 0) a.hash = hash_inode(ino);
	} else if (!strcmp(op->kind, "readdirdot")) {
		a.status = sqfs_dir_reader_get_inode(r->dre, op->a, &ino);
		if (a.status == 0) {
			sqfs_dir_reader_state_t st;
			a.status = sqfs_dir_reader_open_dir(r->dre, ino, &st, 0);
			while (a.status == 0) {
				sqfs_dir_node_t *ent = NULL;
				int ret = sqfs_dir_reader_read(r->dre, &st, &ent);
				if (ret != 0) { if (ret < 0) a.status = ret; break; }
				a.hash = fnv(a.hash, ent, sizeof(*ent) + ent->size + 1);
				a.hash = fnv(a.hash, &st.ent_ref, sizeof(st.ent_ref));
				sqfs_free(ent);
			}
		}
	} else if (!strcmp(op->kind, "id")) {
		sqfs_u32 out = 0;
		a.status = sqfs_id_table_index_to_id(r->idtbl, (sqfs_u16)op->a, &out);
		a.hash = fnv(a.hash, &out, sizeof(out));
	} else if (!strcmp(op->kind, "mseek")) {
		a.status = sqfs_meta_reader_seek(r->mr, op->a, (size_t)op->b);
		if (a.status == 0 && op->c > 0) {
			sqfs_u8 *buf = calloc(1, op->c);
			a.status = sqfs_meta_reader_read(r->mr, buf, (size_t)op->c);
			if (a.status == 0) a.hash = fnv(a.hash, buf, (size_t)op->c);
			free(buf);
		}
	} else if (!strcmp(op->kind, "reload")) {
		/* a table is loaded again on the used reader (all three loaders release what they held before): a = 0 fragment table of the data
		 * reader, 1 xattr reader, 2 id table; b = 0 the genuine super block, 1 table start at the end of the image, 2 entry count x 1000
		 * (the table ends before its last entry), 3 table start + 1 (garbage location list), 4 feature switched off in the flags */
		sqfs_super_t s = r->super;
		sqfs_u64 *start = op->a == 0 ? &s.fragment_table_start : (op->a == 1 ? &s.xattr_id_table_start : &s.id_table_start);
		if (op->b == 1) *start = s.bytes_used;
		if (op->b == 2) { if (op->a == 0) s.fragment_entry_count *= 1000; else if (op->a == 2) s.id_count = (sqfs_u16)(s.id_count * 1000 + 7); else *start += 8; }
		if (op->b == 3) *start += 1;
		if (op->b == 4) { if (op->a == 0) s.flags |= SQFS_FLAG_NO_FRAGMENTS; else if (op->a == 1) s.flags |= SQFS_FLAG_NO_XATTRS; else s.id_count = 0; }
		if (op->a == 0) a.status = sqfs_data_reader_load_fragment_table(r->data, &s);
		else if (op->a == 1) a.status = sqfs_xattr_reader_load(r->xr, &s, r->file, r->cmp);
		else a.status = sqfs_id_table_read(r->idtbl, r->file, &s, r->cmp);
	} else {
		fprintf(stderr, "unknown op %s\n", op->kind);
		exit(2);
	}
	sqfs_free(ino);
	return a;
}

static uint64_t mr_state(const sqfs_meta_reader_t *m)
{
	uint64_t h = fnv(H0, &m->block_offset, sizeof(m->block_offset));
	h = fnv(h, &m->next_block, sizeof(m->next_block));
	h = fnv(h, &m->data_used, sizeof(m->data_used));
	h = fnv(h, &m->offset, sizeof(m->offset));
	h = fnv_raw(h, m->data, sizeof(m->data));   /* whole buffer: stale bytes beyond data_used are part of the private state */
	return h;
}

static void print_hist(const int *seq, int len)
{
	printf("[");
	for (int i = 0; i < len; ++i) {
		const op_t *o = &ops[seq[i]];
		printf("%s\"%s %llu %llu %llu %s\"", i ? "," : "", o->kind, (unsigned long long)o->a, (unsigned long long)o->b, (unsigned long long)o->c, o->str);
	}
	printf("]");
}

static int load_ops(const char *path)
{
	FILE *f = fopen(path, "r");
	if (!f) return -1;
	char line[600];
	while (nops < MAXOPS && fgets(line, sizeof(line), f)) {
		op_t *o = &ops[nops];
		memset(o, 0, sizeof(*o));
		unsigned long long a = 0, b = 0, c = 0;
		if (sscanf(line, "%11s", o->kind) != 1) continue;
		if (!strcmp(o->kind, "path")) {
			if (sscanf(line, "%*s %llu %255[^\n]", &a, o->str) < 1) continue;
		} else {
			sscanf(line, "%*s %llu %llu %llu", &a, &b, &c);
		}
		o->a = a; o->b = b; o->c = c;
		nops++;
	}
	fclose(f);
	return 0;
}

#ifndef READER_HIST_NO_MAIN
int main(int argc, char **argv)
{
	static ans_t fresh[MAXOPS];
	if (argc < 4) return 2;
	image = argv[1];
	if (load_ops(argv[2])) return 2;

	readers_t r;
	for (int i = 0; i < nops; ++i) {
		if (make_readers(&r)) { printf("{\"error\":\"cannot create readers\"}\n"); return 2; }
		fresh[i] = exec_op(&r, &ops[i]);
		drop_readers(&r);
	}

	unsigned long long histories = 0, executed = 0, mismatches = 0, ok_ans = 0, err_ans = 0;
	int first_bad[MAXDEPTH + 1], first_len = 0;
	ans_t bad_exp = {0, 0}, bad_got = {0, 0};

	if (!strcmp(argv[3], "enum")) {
		int depth = atoi(argv[4]), lo = atoi(argv[5]), hi = atoi(argv[6]);
		if (depth > MAXDEPTH) depth = MAXDEPTH;
		if (hi > nops) hi = nops;
		for (int len = 1; len <= depth; ++len) {
			int seq[MAXDEPTH];
			for (int first = lo; first < hi; ++first) {
				for (int i = 0; i < len; ++i) seq[i] = 0;
				seq[0] = first;
				for (;;) {
					/* replay on fresh readers */
					if (make_readers(&r)) return 2;
					for (int i = 0; i < len; ++i) {
						ans_t a = exec_op(&r, &ops[seq[i]]);
						executed++;
						if (a.status == 0) ok_ans++; else err_ans++;
						if (a.status != fresh[seq[i]].status || (a.status == 0 && a.hash != fresh[seq[i]].hash)) {
							if (mismatches++ == 0) {
								memcpy(first_bad, seq, sizeof(int) * (size_t)(i + 1));
								first_len = i + 1;
								bad_exp = fresh[seq[i]]; bad_got = a;
							}
							break;
						}
					}
					drop_readers(&r);
					histories++;
					int k = len - 1;
					while (k >= 1 && ++seq[k] == nops) seq[k--] = 0;
					if (k < 1) break;
				}
			}
		}
	} else if (!strcmp(argv[3], "reload")) {
		/* histories that contain table reloads (configuration steps) between queries: the answer of the last operation must equal its answer on
		 * fresh readers that went through the reloads of the history only, i.e. it may depend on the configuration steps but not on the queries */
		int depth = atoi(argv[4]), lo = atoi(argv[5]), hi = atoi(argv[6]);
		if (depth > MAXDEPTH) depth = MAXDEPTH;
		if (hi > nops) hi = nops;
		for (int len = 2; len <= depth; ++len) {
			int seq[MAXDEPTH];
			for (int first = lo; first < hi; ++first) {
				for (int i = 0; i < len; ++i) seq[i] = 0;
				seq[0] = first;
				for (;;) {
					int nre = 0, nq = 0;
					for (int i = 0; i < len - 1; ++i) { if (!strcmp(ops[seq[i]].kind, "reload")) nre++; else nq++; }
					if (nre > 0 && nq > 0) {
						ans_t got = {0, 0}, want = {0, 0};
						if (make_readers(&r)) return 2;
						for (int i = 0; i < len; ++i) { got = exec_op(&r, &ops[seq[i]]); executed++; }
						drop_readers(&r);
						if (make_readers(&r)) return 2;
						for (int i = 0; i < len - 1; ++i) if (!strcmp(ops[seq[i]].kind, "reload")) { exec_op(&r, &ops[seq[i]]); executed++; }
						want = exec_op(&r, &ops[seq[len - 1]]); executed++;
						drop_readers(&r);
						if (got.status == 0) ok_ans++; else err_ans++;
						histories++;
						if (got.status != want.status || (got.status == 0 && got.hash != want.hash)) {
							if (mismatches++ == 0) {
								memcpy(first_bad, seq, sizeof(int) * (size_t)len);
								first_len = len;
								bad_exp = want; bad_got = got;
							}
						}
					}
					int k = len - 1;
					while (k >= 1 && ++seq[k] == nops) seq[k--] = 0;
					if (k < 1) break;
				}
			}
		}
	} else if (!strcmp(argv[3], "bfs")) {
		/* closure over the meta-reader composite ops, dedup on the reader's private state */
		enum { MAXSTATES = 200000 };
		static uint64_t seen[MAXSTATES];
		static int hist[MAXSTATES][MAXDEPTH * 4];
		static int hlen[MAXSTATES];
		int nseen = 0, head = 0;
		int mops[MAXOPS], nm = 0;
		for (int i = 0; i < nops; ++i) if (!strcmp(ops[i].kind, "mseek")) mops[nm++] = i;
		if (make_readers(&r)) return 2;
		seen[nseen] = mr_state(r.mr); hlen[nseen] = 0; nseen++;
		drop_readers(&r);
		while (head < nseen) {
			for (int oi = 0; oi < nm; ++oi) {
				if (hlen[head] + 1 >= MAXDEPTH * 4) continue;
				if (make_readers(&r)) return 2;
				for (int i = 0; i < hlen[head]; ++i) exec_op(&r, &ops[hist[head][i]]);
				ans_t a = exec_op(&r, &ops[mops[oi]]);
				executed++;
				histories++;
				if (a.status == 0) ok_ans++; else err_ans++;
				if (a.status != fresh[mops[oi]].status || (a.status == 0 && a.hash != fresh[mops[oi]].hash)) {
					if (mismatches++ == 0) {
						memcpy(first_bad, hist[head], sizeof(int) * (size_t)hlen[head]);
						first_bad[hlen[head]] = mops[oi];
						first_len = hlen[head] + 1;
						bad_exp = fresh[mops[oi]]; bad_got = a;
					}
				}
				uint64_t s = mr_state(r.mr);
				drop_readers(&r);
				int known = 0;
				for (int k = 0; k < nseen; ++k) if (seen[k] == s) { known = 1; break; }
				if (!known && nseen < MAXSTATES) {
					seen[nseen] = s;
					memcpy(hist[nseen], hist[head], sizeof(int) * (size_t)hlen[head]);
					hist[nseen][hlen[head]] = mops[oi];
					hlen[nseen] = hlen[head] + 1;
					nseen++;
				}
			}
			head++;
		}
		printf("{\"mode\":\"bfs\",\"states\":%d,\"transitions\":%llu,", nseen, executed);
	} else if (!strcmp(argv[3], "agree")) {
		/* the low-level xattr walk, with and without interleaved descriptor lookups, must give what read_all gives */
		for (int i = 0; i < nops; ++i) {
			if (strcmp(ops[i].kind, "xwalk")) continue;
			op_t ra = ops[i], plain = ops[i];
			strcpy(ra.kind, "xattr");
			plain.b = 4294967295ULL;
			if (make_readers(&r)) return 2;
			ans_t want = exec_op(&r, &plain);       /* the walk without interleaved lookups */
			drop_readers(&r);
			if (want.status == 0) {
				/* where the walk succeeds, read_all must give the same pairs */
				if (make_readers(&r)) return 2;
				ans_t all = exec_op(&r, &ra);
				drop_readers(&r);
				if (all.status != 0 || all.hash != want.hash) {
					if (mismatches++ == 0) { first_bad[0] = i; first_len = 1; bad_exp = want; bad_got = all; }
					continue;
				}
			}
			if (make_readers(&r)) return 2;
			ans_t got1 = exec_op(&r, &ops[i]);
			ans_t got2 = exec_op(&r, &ops[i]);       /* and once more on the used reader */
			drop_readers(&r);
			executed += 3; histories++;
			for (int k = 0; k < 2; ++k) {
				ans_t g = k ? got2 : got1;
				if (g.status != want.status || (g.status == 0 && g.hash != want.hash)) {
					if (mismatches++ == 0) { first_bad[0] = i; first_len = 1; bad_exp = want; bad_got = g; }
					break;
				}
			}
		}
		/* a stream interleaved with positional reads of another file must give what the undisturbed stream gives */
		for (int i = 0; i < nops; ++i) {
			if (strcmp(ops[i].kind, "streami")) continue;
			op_t plain = ops[i];
			strcpy(plain.kind, "stream");
			if (make_readers(&r)) return 2;
			ans_t want = exec_op(&r, &plain);
			drop_readers(&r);
			if (make_readers(&r)) return 2;
			ans_t got = exec_op(&r, &ops[i]);
			drop_readers(&r);
			executed += 2; histories++;
			if (got.status != want.status || (got.status == 0 && got.hash != want.hash)) {
				if (mismatches++ == 0) { first_bad[0] = i; first_len = 1; bad_exp = want; bad_got = got; }
			}
		}
		for (int i = 0; i < nops; ++i) {
			if (strcmp(ops[i].kind, "stream")) continue;
			sqfs_inode_generic_t *ino = NULL;
			if (make_readers(&r)) return 2;
			if (sqfs_dir_reader_get_inode(r.dr, ops[i].a, &ino) == 0) {
				sqfs_u64 size = 0;
				sqfs_inode_get_file_size(ino, &size);
				sqfs_u8 *a = calloc(1, size + 1), *b = calloc(1, size + 1), *c = calloc(1, size + 1);
				size_t na = 0, nb = 0, nc = 0;
				sqfs_istream_t *s = NULL;
				if (sqfs_data_reader_create_stream(r.data, ino, "f", &s) == 0) {
					for (;;) { const sqfs_u8 *p; size_t n; if (s->get_buffered_data(s, &p, &n, 1) != 0) break; if (na + n > size) n = size - na; memcpy(a + na, p, n); na += n; s->advance_buffer(s, n); if (n == 0) break; }
					sqfs_drop(s);
				}
				for (sqfs_u64 off = 0; off < size;) { sqfs_s32 n = sqfs_data_reader_read(r.data, ino, off, b + off, 1000); if (n <= 0) break; off += (sqfs_u64)n; nb = off; }
				size_t bs = r.super.block_size;
				size_t nblk = sqfs_inode_get_file_block_count(ino);
				for (size_t k = 0; k < nblk; ++k) { size_t sz; sqfs_u8 *out; if (sqfs_data_reader_get_block(r.data, ino, k, &sz, &out)) break; if (nc + sz > size) sz = size - nc; memcpy(c + nc, out, sz); nc += sz; sqfs_free(out); }
				if (nc < size) { size_t sz; sqfs_u8 *out = NULL; if (sqfs_data_reader_get_fragment(r.data, ino, &sz, &out) == 0 && out) { if (nc + sz > size) sz = size - nc; memcpy(c + nc, out, sz); nc += sz; } sqfs_free(out); }
				(void)bs;
				executed += 3; histories++;
				if (na != size || nb != size || nc != size || memcmp(a, b, size) || memcmp(a, c, size)) {
					if (mismatches++ == 0) { first_bad[0] = i; first_len = 1; bad_exp.hash = na; bad_got.hash = nb ^ (nc << 20); }
				}
				free(a); free(b); free(c);
				sqfs_free(ino);
			}
			drop_readers(&r);
		}
	} else {
		return 2;
	}
	if (strcmp(argv[3], "bfs")) printf("{\"mode\":\"%s\",", argv[3]);
	printf("\"ops\":%d,\"histories\":%llu,\"ops_executed\":%llu,\"answers_ok\":%llu,\"answers_error\":%llu,\"mismatches\":%llu,\"first_mismatch\":",
	       nops, histories, executed, ok_ans, err_ans, mismatches);
	if (mismatches) {
		printf("{\"history\":");
		print_hist(first_bad, first_len);
		printf(",\"fresh_status\":%d,\"fresh_hash\":\"%llx\",\"got_status\":%d,\"got_hash\":\"%llx\"}", bad_exp.status, (unsigned long long)bad_exp.hash, bad_got.status, (unsigned long long)bad_got.hash);
	} else {
		printf("null");
	}
	printf("}\n");
	return mismatches ? 1 : 0;
}
#endif
