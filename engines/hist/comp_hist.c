/* HIST — compressors are pure functions of (configuration, input block): for every compressor configuration (flags = strategy /
 * filter selections, levels) and every sequence of <= DEPTH blocks from a small block alphabet, do_block on the last block after the
 * history must return exactly what a freshly created compressor returns for that block. (Each block-processor worker owns a private
 * compressor copy; if a result depended on what the instance compressed before, image bytes would depend on -j and on scheduling: C02.)
 *
 * usage: comp_hist <depth> ; prints one JSON line, exit 1 on a mismatch
 */
#include "config.h"
#include "sqfs/compressor.h"
#include "sqfs/error.h"
#include "sqfs/predef.h"
#include <stdio.h>
#include <stdlib.h>
#include <string.h>
#include <stdint.h>

#define BS 4096
#define NBLK 6
static unsigned char blk[NBLK][BS];
static const char *blkname[NBLK] = { "text", "skewed-noise", "runs", "records", "random", "zeros" };

static uint32_t rng_state = 12345;
static uint32_t rng(void) { rng_state = rng_state * 1664525u + 1013904223u; return rng_state >> 8; }

static void make_blocks(void)
{
	static const char *words[] = { "the ", "quick ", "brown ", "fox ", "jumps ", "over ", "lazy ", "dog\n", "squashfs ", "image " };
	size_t n = 0;
	while (n < BS) { const char *w = words[rng() % 10]; size_t l = strlen(w); if (n + l > BS) l = BS - n; memcpy(blk[0] + n, w, l); n += l; }
	for (n = 0; n < BS; ++n) { uint32_t r = rng() % 100; blk[1][n] = r < 60 ? 'a' : r < 85 ? 'b' : (unsigned char)(rng() % 7 + 'c'); }
	for (n = 0; n < BS; ) { size_t run = rng() % 40 + 1; unsigned char c = (unsigned char)rng(); for (size_t i = 0; i < run && n < BS; ++i) blk[2][n++] = c; }
	for (n = 0; n < BS; ++n) blk[3][n] = (unsigned char)((n % 24) < 20 ? "record-field-0123456"[n % 24] : (n / 24) & 0xFF);
	for (n = 0; n < BS; ++n) blk[4][n] = (unsigned char)rng();
	memset(blk[5], 0, BS);
}

typedef struct { const char *name; int id; unsigned flags; unsigned level; unsigned dict; } cfg_t;

static int run_one(sqfs_compressor_t *c, const unsigned char *in, size_t inlen, unsigned char *out, size_t outcap)
{
	return c->do_block(c, in, (sqfs_u32)inlen, out, (sqfs_u32)outcap);
}

int main(int argc, char **argv)
{
	int depth = argc > 1 ? atoi(argv[1]) : 3;
	static const cfg_t cfgs[] = {
		{ "gzip", SQFS_COMP_GZIP, 0, 0, 0 },
		{ "gzip all strategies", SQFS_COMP_GZIP, SQFS_COMP_FLAG_GZIP_ALL, 0, 0 },
		{ "gzip default+filtered", SQFS_COMP_GZIP, SQFS_COMP_FLAG_GZIP_DEFAULT | SQFS_COMP_FLAG_GZIP_FILTERED, 0, 0 },
		{ "gzip huffman+rle level 1", SQFS_COMP_GZIP, SQFS_COMP_FLAG_GZIP_HUFFMAN | SQFS_COMP_FLAG_GZIP_RLE, 1, 0 },
		{ "gzip default+fixed", SQFS_COMP_GZIP, SQFS_COMP_FLAG_GZIP_DEFAULT | SQFS_COMP_FLAG_GZIP_FIXED, 0, 0 },
		{ "xz", SQFS_COMP_XZ, 0, 0, 0 },
		{ "xz x86+arm filters", SQFS_COMP_XZ, SQFS_COMP_FLAG_XZ_X86 | SQFS_COMP_FLAG_XZ_ARM, 0, 0 },
		{ "xz all filters extreme", SQFS_COMP_XZ, SQFS_COMP_FLAG_XZ_ALL, 0, 0 },
		{ "lzma", SQFS_COMP_LZMA, 0, 0, 0 },
		{ "lz4", SQFS_COMP_LZ4, 0, 0, 0 },
		{ "lz4 hc", SQFS_COMP_LZ4, SQFS_COMP_FLAG_LZ4_HC, 0, 0 },
		{ "zstd", SQFS_COMP_ZSTD, 0, 0, 0 },
		{ "zstd level 19", SQFS_COMP_ZSTD, 0, 19, 0 },
	};
	unsigned long long seqs = 0, calls = 0, mismatches = 0, skipped = 0;
	char first[512] = "";
	make_blocks();

	for (size_t ci = 0; ci < sizeof(cfgs) / sizeof(cfgs[0]); ++ci) {
		for (int dir = 0; dir < 2; ++dir) {
			sqfs_compressor_config_t cfg;
			sqfs_compressor_t *fresh = NULL;
			static unsigned char ref[NBLK][2 * BS], comp[NBLK][2 * BS];
			int reflen[NBLK], complen[NBLK];

			if (sqfs_compressor_config_init(&cfg, cfgs[ci].id, BS, cfgs[ci].flags | (dir ? SQFS_COMP_FLAG_UNCOMPRESS : 0))) { skipped++; continue; }
			if (cfgs[ci].level) cfg.level = cfgs[ci].level;
			/* inputs of the uncompress direction: blocks compressed by a fresh compressor of the same configuration */
			{
				sqfs_compressor_config_t ccfg;
				sqfs_compressor_t *cc = NULL;
				sqfs_compressor_config_init(&ccfg, cfgs[ci].id, BS, cfgs[ci].flags);
				if (cfgs[ci].level) ccfg.level = cfgs[ci].level;
				for (int b = 0; b < NBLK; ++b) {
					if (sqfs_compressor_create(&ccfg, &cc)) { cc = NULL; break; }
					complen[b] = run_one(cc, blk[b], BS, comp[b], sizeof(comp[b]));
					sqfs_drop(cc);
				}
				if (cc == NULL && complen[0] == 0) { skipped++; continue; }
			}
			/* reference answers: one fresh object per block */
			int ok = 1;
			for (int b = 0; b < NBLK; ++b) {
				if (sqfs_compressor_create(&cfg, &fresh)) { ok = 0; break; }
				if (dir == 0) reflen[b] = run_one(fresh, blk[b], BS, ref[b], BS);   /* output capacity = block size, like the block processor's scratch buffer: incompressible blocks run out of space */
				else reflen[b] = complen[b] > 0 ? run_one(fresh, comp[b], (size_t)complen[b], ref[b], BS) : -9999;
				sqfs_drop(fresh);
			}
			if (!ok) { skipped++; continue; }
			/* all histories */
			int seq[8];
			for (int len = 1; len <= depth; ++len) {
				for (int i = 0; i < len; ++i) seq[i] = 0;
				for (;;) {
					sqfs_compressor_t *c = NULL;
					static unsigned char out[2 * BS];
					if (sqfs_compressor_create(&cfg, &c)) return 2;
					int r = 0;
					for (int i = 0; i < len; ++i) {
						int b = seq[i];
						if (dir == 0) r = run_one(c, blk[b], BS, out, BS);
						else r = complen[b] > 0 ? run_one(c, comp[b], (size_t)complen[b], out, BS) : -9999;
						calls++;
					}
					int b = seq[len - 1];
					if (r != reflen[b] || (r > 0 && memcmp(out, ref[b], (size_t)r) != 0)) {
						if (mismatches++ == 0) {
							int n = snprintf(first, sizeof(first), "%s %s: history [", cfgs[ci].name, dir ? "uncompress" : "compress");
							for (int i = 0; i < len; ++i) n += snprintf(first + n, sizeof(first) - (size_t)n, "%s%s", i ? ", " : "", blkname[seq[i]]);
							snprintf(first + n, sizeof(first) - (size_t)n, "]: last result %d bytes, fresh compressor gives %d bytes%s", r, reflen[b],
								 r == reflen[b] ? " (different bytes)" : "");
						}
					}
					sqfs_drop(c);
					seqs++;
					int k = len - 1;
					while (k >= 0 && ++seq[k] == NBLK) seq[k--] = 0;
					if (k < 0) break;
				}
			}
		}
	}
	printf("{\"configurations\":%zu,\"sequences\":%llu,\"do_block_calls\":%llu,\"skipped\":%llu,\"mismatches\":%llu,\"first\":\"%s\"}\n",
	       sizeof(cfgs) / sizeof(cfgs[0]) * 2, seqs, calls, skipped, mismatches, first);
	return mismatches ? 1 : 0;
}
