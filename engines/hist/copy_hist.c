/* HIST — copies of library objects (C19). For every copyable object kind: all pre-copy histories of length <= P,
 * all interleavings of <= Q further operations distributed over {original, copy}, both release orders (the survivor is used
 * once more after the other one is gone). Oracle: every answer equals the answer of a fresh object that replays only that
 * object's own history; ASan clean; LeakSanitizer clean at exit; shared file/compressor reference counts return to their
 * initial value.
 *
 * usage: copy_hist <image> <opsfile> <kind> <P> <Q>
 */
#define READER_HIST_NO_MAIN
#include "reader_hist.c"

#include "sqfs/frag_table.h"
#include "sqfs/xattr_writer.h"
#include "sqfs/meta_writer.h"
#include "sqfs/compressor.h"

/* ------------------------------------------------------------------ kinds */
typedef struct {
	const char *name;
	int nops;
	void *(*make)(void);
	uint64_t (*op)(void *obj, int k);
	void (*drop)(void *obj);
	void *(*copy)(void *obj);
} kind_t;

static uint64_t mix(int status, uint64_t h) { return fnv(h, &status, sizeof(status)); }

/* --- compressors */
static int comp_id, comp_flags, comp_opt;   /* comp_opt: every option of the compressor set to a non-default value */
static sqfs_u8 cin[3][600];
static size_t cin_len[3];
static sqfs_u8 packed[3][1200];
static int packed_len[3];

static void *comp_make(void)
{
	sqfs_compressor_config_t cfg;
	sqfs_compressor_t *c = NULL;
	sqfs_compressor_config_init(&cfg, comp_id, 4096, comp_flags);
	if (comp_opt) {
		switch (comp_id) {
		case SQFS_COMP_GZIP: cfg.level = 2; cfg.opt.gzip.window_size = 10; break;
		case SQFS_COMP_XZ: cfg.level = 1; cfg.opt.xz.dict_size = 8192; cfg.opt.xz.lc = 1; cfg.opt.xz.lp = 1; cfg.opt.xz.pb = 1; cfg.flags |= SQFS_COMP_FLAG_XZ_X86; break;
		case SQFS_COMP_LZMA: cfg.level = 1; cfg.opt.lzma.dict_size = 8192; cfg.opt.lzma.lc = 1; cfg.opt.lzma.lp = 1; cfg.opt.lzma.pb = 1; break;
		case SQFS_COMP_ZSTD: cfg.level = 3; break;
		case SQFS_COMP_LZ4: cfg.flags |= SQFS_COMP_FLAG_LZ4_HC; break;
		default: break;
		}
	}
	if (sqfs_compressor_create(&cfg, &c)) return NULL;
	return c;
}

static uint64_t comp_op(void *obj, int k)
{
	sqfs_compressor_t *c = obj;
	sqfs_u8 out[4096];
	if (k == 3) {
		sqfs_compressor_config_t cfg;
		c->get_configuration(c, &cfg);
		return fnv(H0, &cfg, sizeof(cfg));
	}
	sqfs_s32 r;
	if (comp_flags & SQFS_COMP_FLAG_UNCOMPRESS)
		r = c->do_block(c, packed[k], (sqfs_u32)packed_len[k], out, sizeof(out));
	else
		r = c->do_block(c, cin[k], (sqfs_u32)cin_len[k], out, sizeof(out));
	uint64_t h = fnv(H0, &r, sizeof(r));
	if (r > 0) h = fnv(h, out, (size_t)r);
	return h;
}

static void obj_drop(void *o) { sqfs_drop(o); }
static void *obj_copy(void *o) { return sqfs_copy(o); }

/* --- fragment table */
static void *frag_make(void) { return sqfs_frag_table_create(0); }
static uint64_t frag_op(void *obj, int k)
{
	sqfs_frag_table_t *t = obj;
	sqfs_fragment_t f;
	sqfs_u32 idx = 0;
	int r;
	memset(&f, 0, sizeof(f));
	switch (k) {
	case 0: r = sqfs_frag_table_append(t, 1000 + sqfs_frag_table_get_size(t), 77, &idx); return mix(r, fnv(H0, &idx, sizeof(idx)));
	case 1: r = sqfs_frag_table_set(t, 0, 4242, 99); return mix(r, H0);
	case 2: r = sqfs_frag_table_lookup(t, 0, &f); return mix(r, fnv(H0, &f, sizeof(f)));
	case 3: r = sqfs_frag_table_lookup(t, (sqfs_u32)sqfs_frag_table_get_size(t) - 1, &f); return mix(r, fnv(H0, &f, sizeof(f)));
	default: { size_t n = sqfs_frag_table_get_size(t); return fnv(H0, &n, sizeof(n)); }
	}
}

/* --- id table */
static void *id_make(void) { return sqfs_id_table_create(0); }
static uint64_t id_op(void *obj, int k)
{
	sqfs_id_table_t *t = obj;
	sqfs_u16 idx = 0; sqfs_u32 id = 0; int r;
	switch (k) {
	case 0: r = sqfs_id_table_id_to_index(t, 1000, &idx); return mix(r, fnv(H0, &idx, sizeof(idx)));
	case 1: r = sqfs_id_table_id_to_index(t, 7, &idx); return mix(r, fnv(H0, &idx, sizeof(idx)));
	case 2: r = sqfs_id_table_index_to_id(t, 0, &id); return mix(r, fnv(H0, &id, sizeof(id)));
	default: r = sqfs_id_table_index_to_id(t, 1, &id); return mix(r, fnv(H0, &id, sizeof(id)));
	}
}

/* --- readers on an image: the object under test is one reader, its dependencies are shared */
static readers_t deps;          /* shared file / compressor / super (kept alive by main) */
static int rk_ops[8], rk_nops;
static char rk_kind;            /* m meta, d dir, D data, x xattr, f file */

static void *reader_make(void)
{
	switch (rk_kind) {
	case 'm': return sqfs_meta_reader_create(deps.file, deps.cmp, 0, deps.super.bytes_used);
	case 'd': return sqfs_dir_reader_create(&deps.super, deps.cmp, deps.file, 0);
	case 'e': return sqfs_dir_reader_create(&deps.super, deps.cmp, deps.file, SQFS_DIR_READER_DOT_ENTRIES);
	case 'D': { sqfs_data_reader_t *d = sqfs_data_reader_create(deps.file, deps.super.block_size, deps.cmp, 0); if (d) sqfs_data_reader_load_fragment_table(d, &deps.super); return d; }
	case 'x': { sqfs_xattr_reader_t *x = sqfs_xattr_reader_create(0); if (x) sqfs_xattr_reader_load(x, &deps.super, deps.file, deps.cmp); return x; }
	case 'f': { sqfs_file_t *f = NULL; sqfs_file_open(&f, image, SQFS_FILE_OPEN_READ_ONLY); return f; }
	}
	return NULL;
}

static uint64_t reader_op(void *obj, int k)
{
	readers_t r = deps;
	ans_t a;
	if (rk_kind == 'f') {
		sqfs_file_t *f = obj;
		sqfs_u8 buf[64];
		if (k == 2) { sqfs_u64 s = f->get_size(f); return fnv(H0, &s, sizeof(s)); }
		int ret = f->read_at(f, k == 0 ? 0 : 100, buf, 32);
		return mix(ret, fnv(H0, buf, ret ? 0 : 32));
	}
	switch (rk_kind) {
	case 'm': r.mr = obj; break;
	case 'd': case 'e': r.dr = obj; break;
	case 'D': r.data = obj; break;
	case 'x': r.xr = obj; break;
	}
	a = exec_op(&r, &ops[rk_ops[k]]);
	return mix(a.status, a.status == 0 ? a.hash : 0);
}

/* --- xattr writer */
typedef struct { sqfs_file_t base; sqfs_u8 data[65536]; size_t size; } memf_t;
static int mf_read(sqfs_file_t *f, sqfs_u64 o, void *b, size_t n) { memf_t *m = (memf_t *)f; if (o + n > m->size) return SQFS_ERROR_OUT_OF_BOUNDS; memcpy(b, m->data + o, n); return 0; }
static int mf_write(sqfs_file_t *f, sqfs_u64 o, const void *b, size_t n) { memf_t *m = (memf_t *)f; if (o + n > sizeof(m->data)) return SQFS_ERROR_IO; memcpy(m->data + o, b, n); if (o + n > m->size) m->size = o + n; return 0; }
static sqfs_u64 mf_size(const sqfs_file_t *f) { return ((const memf_t *)f)->size; }
static int mf_trunc(sqfs_file_t *f, sqfs_u64 s) { ((memf_t *)f)->size = s; return 0; }
static const char *mf_name(sqfs_file_t *f) { (void)f; return "mem"; }
static void mf_destroy(sqfs_object_t *o) { free(o); }

static void *xw_make(void) { return sqfs_xattr_writer_create(0); }
static uint64_t xw_op(void *obj, int k)
{
	sqfs_xattr_writer_t *w = obj;
	sqfs_u32 idx = 0;
	int r;
	switch (k) {
	case 0:
		r = sqfs_xattr_writer_begin(w, 0);
		if (!r) r = sqfs_xattr_writer_add_kv(w, "user.a", "1", 1);
		if (!r) r = sqfs_xattr_writer_end(w, &idx);
		return mix(r, fnv(H0, &idx, sizeof(idx)));
	case 1:
		r = sqfs_xattr_writer_begin(w, 0);
		if (!r) r = sqfs_xattr_writer_add_kv(w, "user.b", "two", 3);
		if (!r) r = sqfs_xattr_writer_add_kv(w, "user.a", "1", 1);
		if (!r) r = sqfs_xattr_writer_end(w, &idx);
		return mix(r, fnv(H0, &idx, sizeof(idx)));
	case 2:
		r = sqfs_xattr_writer_begin(w, 0);
		if (!r) r = sqfs_xattr_writer_add_kv(w, "security.s", "LONGVALUE-LONGVALUE-LONGVALUE", 29);
		if (!r) r = sqfs_xattr_writer_end(w, &idx);
		return mix(r, fnv(H0, &idx, sizeof(idx)));
	default: {
		memf_t *m = calloc(1, sizeof(*m));
		sqfs_super_t super;
		sqfs_compressor_config_t cfg;
		sqfs_compressor_t *c = NULL;
		sqfs_object_init(m, mf_destroy, NULL);
		m->base.read_at = mf_read; m->base.write_at = mf_write; m->base.get_size = mf_size; m->base.truncate = mf_trunc; m->base.get_filename = mf_name;
		m->size = 96;
		sqfs_super_init(&super, 4096, 0, SQFS_COMP_GZIP);
		sqfs_compressor_config_init(&cfg, SQFS_COMP_GZIP, 4096, 0);
		sqfs_compressor_create(&cfg, &c);
		r = sqfs_xattr_writer_flush(w, &m->base, &super, c);
		uint64_t h = fnv(H0, m->data, m->size);
		h = fnv(h, &super.xattr_id_table_start, sizeof(super.xattr_id_table_start));
		sqfs_drop(c);
		sqfs_drop(m);
		return mix(r, h);
	}
	}
}

/* ------------------------------------------------------------------ allocation failure inside sqfs_copy (linked with -Wl,--wrap=malloc,calloc,realloc) */
static long fail_at = -1, alloc_count;
static int fail_hit;
void *__real_malloc(size_t n);
void *__real_calloc(size_t a, size_t b);
void *__real_realloc(void *p, size_t n);
static int fail_now(void) { if (fail_at >= 0 && ++alloc_count == fail_at) { fail_hit = 1; return 1; } return 0; }
void *__wrap_malloc(size_t n) { return fail_now() ? NULL : __real_malloc(n); }
void *__wrap_calloc(size_t a, size_t b) { return fail_now() ? NULL : __real_calloc(a, b); }
void *__wrap_realloc(void *p, size_t n) { return fail_now() ? NULL : __real_realloc(p, n); }

/* ------------------------------------------------------------------ exploration */
static kind_t K;
static unsigned long long n_hist, n_ops, n_bad, n_failcopy;
static char first_bad[512];

#define MAXP 3
#define MAXQ 4

static void report(const char *what, const int *pre, int np, const int *who, const int *pop, int nq, int step)
{
	if (n_bad++ == 0) {
		size_t o = (size_t)snprintf(first_bad, sizeof(first_bad), "%s; pre-copy ops [", what);
		for (int i = 0; i < np; ++i) o += (size_t)snprintf(first_bad + o, sizeof(first_bad) - o, "%d ", pre[i]);
		o += (size_t)snprintf(first_bad + o, sizeof(first_bad) - o, "] then ");
		for (int i = 0; i < nq; ++i) o += (size_t)snprintf(first_bad + o, sizeof(first_bad) - o, "%s:%d ", who[i] ? "copy" : "orig", pop[i]);
		snprintf(first_bad + o, sizeof(first_bad) - o, "(failing step %d)", step);
	}
}

/* reference answer: fresh object replaying pre + only this object's own ops up to and including step */
static uint64_t reference(const int *pre, int np, const int *who, const int *pop, int upto, int me, int extra_op)
{
	void *r = K.make();
	uint64_t a = 0;
	for (int i = 0; i < np; ++i) a = K.op(r, pre[i]);
	for (int i = 0; i <= upto; ++i) if (who[i] == me) a = K.op(r, pop[i]);
	if (extra_op >= 0) a = K.op(r, extra_op);
	K.drop(r);
	return a;
}

static void run_case(const int *pre, int np, const int *who, const int *pop, int nq, int release_first)
{
	void *o = K.make();
	if (o == NULL) { report("make failed", pre, np, who, pop, nq, -1); return; }
	for (int i = 0; i < np; ++i) { K.op(o, pre[i]); n_ops++; }
	void *c = K.copy(o);
	if (c == NULL) { report("copy returned NULL", pre, np, who, pop, nq, -1); K.drop(o); return; }
	for (int i = 0; i < nq; ++i) {
		uint64_t a = K.op(who[i] ? c : o, pop[i]);
		n_ops++;
		if (a != reference(pre, np, who, pop, i, who[i], -1))
			report(who[i] ? "copy answers differently from a fresh object with the same history" : "original is affected by operations on its copy", pre, np, who, pop, nq, i);
	}
	/* release one, use the survivor once more (op 0..nops-1 in turn), release it */
	void *first = release_first ? c : o, *second = release_first ? o : c;
	int me = release_first ? 0 : 1;
	K.drop(first);
	for (int k = 0; k < K.nops; ++k) {
		/* the survivor's history grows: replay reference including the extra ops so far */
		uint64_t a = K.op(second, k);
		n_ops++;
		void *r = K.make();
		uint64_t b = 0;
		for (int i = 0; i < np; ++i) b = K.op(r, pre[i]);
		for (int i = 0; i < nq; ++i) if (who[i] == me) b = K.op(r, pop[i]);
		for (int j = 0; j <= k; ++j) b = K.op(r, j);
		K.drop(r);
		if (a != b)
			report(release_first ? "original misbehaves after its copy was released" : "copy misbehaves after the original was released", pre, np, who, pop, nq, 100 + k);
	}
	K.drop(second);
	n_hist++;
}

/* for every k: the k-th allocation made inside the copy operation fails. The original must go on answering like a fresh object with the
 * same history and must be releasable; the shared file / compressor reference counts are compared at the very end. */
static void run_failcopy(const int *pre, int np)
{
	for (long k = 1; k < 64; ++k) {
		void *o = K.make();
		if (o == NULL) return;
		for (int i = 0; i < np; ++i) K.op(o, pre[i]);
		alloc_count = 0; fail_hit = 0; fail_at = k;
		void *c = K.copy(o);
		fail_at = -1;
		if (!fail_hit) { if (c) K.drop(c); K.drop(o); return; }
		n_failcopy++;
		if (c != NULL) K.drop(c);      /* the copy got along without that allocation */
		for (int j = 0; j < K.nops; ++j) {
			uint64_t a = K.op(o, j);
			void *r = K.make();
			uint64_t b = 0;
			for (int i = 0; i < np; ++i) b = K.op(r, pre[i]);
			for (int z = 0; z <= j; ++z) b = K.op(r, z);
			K.drop(r);
			if (a != b) {
				char w[96];
				snprintf(w, sizeof(w), "original misbehaves after a copy attempt whose allocation #%ld failed", k);
				report(w, pre, np, NULL, NULL, 0, 200 + j);
			}
		}
		K.drop(o);
	}
}

int main(int argc, char **argv)
{
	if (argc < 6) return 2;
	image = argv[1];
	if (load_ops(argv[2])) return 2;
	const char *kind = argv[3];
	int P = atoi(argv[4]), Q = atoi(argv[5]);
	if (P > MAXP) P = MAXP;
	if (Q > MAXQ) Q = MAXQ;
	for (int i = 0; i < 3; ++i) {
		cin_len[i] = 100 + 200 * (size_t)i;
		for (size_t j = 0; j < cin_len[i]; ++j) cin[i][j] = (sqfs_u8)("squashfs-tools-ng "[j % 18] + (i == 2 ? (j * 7) % 13 : 0));
	}
	if (make_readers(&deps)) { printf("{\"error\":\"cannot open image\"}\n"); return 2; }
	size_t file_rc0 = ((sqfs_object_t *)deps.file)->refcount, cmp_rc0 = ((sqfs_object_t *)deps.cmp)->refcount;

	memset(&K, 0, sizeof(K));
	K.name = kind; K.drop = obj_drop; K.copy = obj_copy;
	static const struct { const char *n; int id; } comps[] = { {"gzip", SQFS_COMP_GZIP}, {"xz", SQFS_COMP_XZ}, {"lz4", SQFS_COMP_LZ4}, {"zstd", SQFS_COMP_ZSTD}, {"lzma", SQFS_COMP_LZMA} };
	int found = 0;
	for (size_t i = 0; i < sizeof(comps) / sizeof(comps[0]); ++i) {
		char a[32], b[32];
		for (int opt = 0; opt < 2; ++opt) {
		snprintf(a, sizeof(a), "%s%s-compress", comps[i].n, opt ? "-opt" : "");
		snprintf(b, sizeof(b), "%s%s-uncompress", comps[i].n, opt ? "-opt" : "");
		if (!strcmp(kind, a) || !strcmp(kind, b)) {
			comp_id = comps[i].id;
			comp_opt = opt;
			/* packed inputs for the uncompress variant */
			comp_flags = 0;
			sqfs_compressor_t *c = comp_make();
			if (c == NULL) { printf("{\"kind\":\"%s\",\"skipped\":\"compressor not available\"}\n", kind); return 0; }
			for (int k = 0; k < 3; ++k) {
				packed_len[k] = c->do_block(c, cin[k], (sqfs_u32)cin_len[k], packed[k], sizeof(packed[k]));
				if (packed_len[k] <= 0) { memcpy(packed[k], cin[k], cin_len[k]); packed_len[k] = (int)cin_len[k]; }
			}
			sqfs_drop(c);
			comp_flags = !strcmp(kind, b) ? SQFS_COMP_FLAG_UNCOMPRESS : 0;
			K.make = comp_make; K.op = comp_op; K.nops = 4; found = 1;
		}
		}
	}
	if (!strcmp(kind, "frag-table")) { K.make = frag_make; K.op = frag_op; K.nops = 5; found = 1; }
	if (!strcmp(kind, "id-table")) { K.make = id_make; K.op = id_op; K.nops = 4; found = 1; }
	if (!strcmp(kind, "xattr-writer")) { K.make = xw_make; K.op = xw_op; K.nops = 4; found = 1; }
	static const struct { const char *n; char k; const char *opk[4]; } rks[] = {
		{"meta-reader", 'm', {"mseek", NULL}}, {"dir-reader", 'd', {"inode", "readdir", "path", NULL}}, {"dir-reader-dot", 'e', {"inode", "readdir", "path", NULL}},
		{"data-reader", 'D', {"read", "block", "frag", "stream"}}, {"xattr-reader", 'x', {"xattr", "xwalk", NULL}}, {"file", 'f', {NULL}} };
	for (size_t i = 0; i < sizeof(rks) / sizeof(rks[0]); ++i) {
		if (strcmp(kind, rks[i].n)) continue;
		rk_kind = rks[i].k;
		rk_nops = 0;
		if (rk_kind == 'f') { rk_nops = 3; }
		for (int j = 0; j < nops && rk_nops < 4 && rk_kind != 'f'; ++j)
			for (int q = 0; q < 4 && rks[i].opk[q]; ++q)
				if (!strcmp(ops[j].kind, rks[i].opk[q])) {
					/* at most two ops of one keyword */
					int cnt = 0;
					for (int z = 0; z < rk_nops; ++z) if (!strcmp(ops[rk_ops[z]].kind, ops[j].kind)) cnt++;
					if (cnt < 2 && rk_nops < 4) rk_ops[rk_nops++] = j;
				}
		K.make = reader_make; K.op = reader_op; K.nops = rk_nops; found = 1;
	}
	if (!found || K.nops == 0) { printf("{\"kind\":\"%s\",\"error\":\"unknown kind or no ops\"}\n", kind); return 2; }

	if (!strcmp(kind, "file")) {
		/* a copy of a writable file must fail cleanly */
		sqfs_file_t *w = NULL;
		char tmpl[] = "/tmp/vf_copyhist_XXXXXX";
		int fd = mkstemp(tmpl);
		if (fd >= 0) {
			close(fd);
			if (sqfs_file_open(&w, tmpl, SQFS_FILE_OPEN_OVERWRITE) == 0) {
				void *c = sqfs_copy(w);
				if (c != NULL) { report("copy of a writable file did not fail", NULL, 0, NULL, NULL, 0, -2); sqfs_drop(c); }
				sqfs_drop(w);
			}
			unlink(tmpl);
		}
	}

	int pre[MAXP], who[MAXQ], pop[MAXQ];
	for (int np = 0; np <= P; ++np) {
		for (int i = 0; i < np; ++i) pre[i] = 0;
		for (;;) {
			run_failcopy(pre, np);
			for (int nq = 0; nq <= Q; ++nq) {
				/* all (who, op) sequences of length nq */
				long total = 1;
				for (int i = 0; i < nq; ++i) total *= 2L * K.nops;
				for (long code = 0; code < total; ++code) {
					long c = code;
					for (int i = 0; i < nq; ++i) { int d = (int)(c % (2L * K.nops)); c /= 2L * K.nops; who[i] = d & 1; pop[i] = d >> 1; }
					run_case(pre, np, who, pop, nq, 0);
					run_case(pre, np, who, pop, nq, 1);
				}
			}
			int k = np - 1;
			while (k >= 0 && ++pre[k] == K.nops) pre[k--] = 0;
			if (k < 0) break;
		}
	}
	size_t file_rc1 = ((sqfs_object_t *)deps.file)->refcount, cmp_rc1 = ((sqfs_object_t *)deps.cmp)->refcount;
	if (file_rc1 != file_rc0 || cmp_rc1 != cmp_rc0) {
		char b[128];
		snprintf(b, sizeof(b), "shared object reference counts changed: file %zu -> %zu, compressor %zu -> %zu", file_rc0, file_rc1, cmp_rc0, cmp_rc1);
		report(b, NULL, 0, NULL, NULL, 0, -3);
	}
	drop_readers(&deps);
	printf("{\"kind\":\"%s\",\"ops\":%d,\"pre_depth\":%d,\"post_depth\":%d,\"histories\":%llu,\"ops_executed\":%llu,\"failed_copies\":%llu,\"mismatches\":%llu,\"first\":\"%s\"}\n",
	       kind, K.nops, P, Q, n_hist, n_ops, n_failcopy, n_bad, n_bad ? first_bad : "");
	fflush(stdout);
	return n_bad ? 1 : 0;
}
