/* Controlled scheduler (see vs.h). Compiled WITHOUT the shim: uses real pthreads
 * and semaphores for the hand-off. Exactly one thread holds the run token. */
#include "vs.h"
#include <semaphore.h>
#include <stdarg.h>
#include <stdio.h>
#include <stdlib.h>
#include <string.h>
#include <unistd.h>

enum { T_UNUSED = 0, T_RUN, T_MTX, T_COND, T_JOIN, T_DONE };
static const char *stname[] = {"-", "RUN", "MTX", "COND", "JOIN", "DONE"};

typedef struct {
	int st, obj, obj2, pc, woken;
	sem_t sem;
	pthread_t real;
	void *(*fn)(void *);
	void *arg;
} vth_t;

static vth_t th[VS_MAX_THREADS];
static int nth, cur;
static void *mtx_addr[VS_MAX_OBJ];
static int mtx_owner[VS_MAX_OBJ], nmtx;
static void *cond_addr[VS_MAX_OBJ];
static int ncond;

static vs_shared_t *S;
static const uint8_t *P, *PN;
static uint32_t PL;
static int BOUND, SPUR_LEFT, VERBOSE, UNLOCK_POINT;
static vs_visited_t *VIS;
static vs_hash_cb_t HCB;
static __thread int self_id;

int vs_self(void) { return self_id; }

void vs_hash_mix(uint64_t *h, uint64_t v)
{
	uint64_t x = *h ^ (v + 0x9E3779B97F4A7C15ULL + (*h << 6) + (*h >> 2));
	x ^= x >> 30; x *= 0xBF58476D1CE4E5B9ULL;
	x ^= x >> 27; x *= 0x94D049BB133111EBULL;
	x ^= x >> 31;
	*h = x;
}

void vs_set_hash_cb(vs_hash_cb_t cb) { HCB = cb; }

void vs_setup(vs_shared_t *sh, const uint8_t *prefix, const uint8_t *prefix_nen, uint32_t prefix_len,
	      int bound, int spurious_budget, vs_visited_t *vis, int verbose)
{
	S = sh; P = prefix; PN = prefix_nen; PL = prefix_len;
	BOUND = bound; SPUR_LEFT = spurious_budget; VIS = vis; VERBOSE = verbose;
	UNLOCK_POINT = getenv("VS_UNLOCK_POINT") != NULL;
	memset(th, 0, sizeof(th));
	nth = 1; cur = 0; self_id = 0;
	th[0].st = T_RUN;
	sem_init(&th[0].sem, 0, 0);
	nmtx = ncond = 0;
	S->npoints = 0; S->outcome = VS_RUNNING; S->preempt = 0; S->spurious_used = 0;
	S->result_hash = 0; S->result[0] = 0; S->msg[0] = 0;
}

void vs_fail(int outcome, const char *fmt, ...)
{
	va_list ap;
	va_start(ap, fmt);
	vsnprintf(S->msg, sizeof(S->msg), fmt, ap);
	va_end(ap);
	S->outcome = outcome;
	if (VERBOSE)
		fprintf(stderr, "[vs] FAIL outcome=%d: %s\n", outcome, S->msg);
	_exit(outcome);
}

void vs_result(const char *fmt, ...)
{
	va_list ap;
	size_t l = strlen(S->result);
	va_start(ap, fmt);
	vsnprintf(S->result + l, sizeof(S->result) - l, fmt, ap);
	va_end(ap);
}

void vs_end(void)
{
	uint64_t h = 1469598103934665603ULL;
	for (const char *p = S->result; *p; ++p)
		vs_hash_mix(&h, (uint8_t)*p);
	S->result_hash = h;
	S->outcome = VS_OK;
	_exit(0);
}

static int enabled(int t)
{
	switch (th[t].st) {
	case T_RUN: return 1;
	case T_MTX: return mtx_owner[th[t].obj] < 0;
	case T_COND: return th[t].woken || SPUR_LEFT > 0;
	case T_JOIN: return th[th[t].obj].st == T_DONE;
	default: return 0;
	}
}

static uint64_t state_hash(void)
{
	uint64_t h = 0xCBF29CE484222325ULL;
	for (int t = 0; t < nth; ++t) {
		vs_hash_mix(&h, (uint64_t)th[t].st | ((uint64_t)(th[t].obj & 0xff) << 8) |
				((uint64_t)(th[t].obj2 & 0xff) << 16) | ((uint64_t)th[t].woken << 24) |
				((uint64_t)(uint32_t)th[t].pc << 32));
	}
	for (int m = 0; m < nmtx; ++m)
		vs_hash_mix(&h, (uint64_t)(mtx_owner[m] + 2));
	vs_hash_mix(&h, (uint64_t)SPUR_LEFT | ((uint64_t)cur << 8) | ((uint64_t)nth << 16));
	if (HCB)
		HCB(&h);
	return h ? h : 1;
}

/* returns 1 if (h,cost) is new or improves the recorded cost */
static int vis_check_insert(uint64_t h, uint8_t cost)
{
	vs_visited_t *v = VIS;
	uint64_t i = (h * 0x9E3779B97F4A7C15ULL >> 20) & v->mask;
	for (uint64_t probe = 0; probe <= v->mask; ++probe) {
		uint64_t k = __atomic_load_n(&v->keys[i], __ATOMIC_ACQUIRE);
		if (k == 0) {
			uint64_t exp = 0;
			if (__atomic_compare_exchange_n(&v->keys[i], &exp, h, 0, __ATOMIC_ACQ_REL, __ATOMIC_ACQUIRE)) {
				__atomic_store_n(&v->cost[i], cost, __ATOMIC_RELEASE);
				__atomic_fetch_add(v->count, 1, __ATOMIC_RELAXED);
				return 1;
			}
			k = exp;
		}
		if (k == h) {
			uint8_t c = __atomic_load_n(&v->cost[i], __ATOMIC_ACQUIRE);
			if (c <= cost)
				return 0;
			__atomic_store_n(&v->cost[i], cost, __ATOMIC_RELEASE);
			return 1;
		}
		i = (i + 1) & v->mask;
	}
	vs_fail(VS_DIVERGENCE, "visited table full");
}

static void describe(char *buf, size_t n)
{
	size_t o = 0;
	for (int t = 0; t < nth && o + 40 < n; ++t)
		o += (size_t)snprintf(buf + o, n - o, " T%d:%s(o%d,pc%d%s)", t, stname[th[t].st], th[t].obj, th[t].pc,
				      th[t].woken ? ",woken" : "");
}

/* The running thread (self) has already set its own state. Picks who runs next. */
static void schedule(void)
{
	int self = self_id;

	for (;;) {
		int en[VS_MAX_THREADS], n = 0, run_en = 0;

		if (enabled(cur)) { en[n++] = cur; run_en = 1; }
		for (int t = 0; t < nth; ++t)
			if (t != cur && enabled(t))
				en[n++] = t;

		if (n == 0) {
			char d[400];
			describe(d, sizeof(d));
			vs_fail(VS_DEADLOCK, "deadlock: no enabled thread at point %u:%s", S->npoints, d);
		}

		uint32_t idx = S->npoints;
		if (idx >= VS_HORIZON) {
			char d[400];
			describe(d, sizeof(d));
			vs_fail(VS_LIVELOCK, "horizon of %d scheduling points exceeded:%s", VS_HORIZON, d);
		}

		uint64_t h = state_hash();
		int choice = 0, fresh = 0;

		if (idx < PL) {
			choice = P[idx];
			if (PN && PN[idx] != n)
				vs_fail(VS_DIVERGENCE, "replay divergence at point %u: recorded %u enabled, now %d", idx, PN[idx], n);
			if (choice >= n)
				vs_fail(VS_DIVERGENCE, "replay divergence at point %u: choice %d of %d", idx, choice, n);
		} else if (VIS) {
			uint8_t cost = BOUND < 0 ? 0 : (uint8_t)S->preempt;
			fresh = vis_check_insert(h, cost);
			if (!fresh) {
				S->outcome = VS_PRUNED;
				_exit(VS_PRUNED);
			}
		}

		int t = en[choice];
		vs_rec_t *r = &S->rec[idx];
		r->nen = (uint8_t)n; r->run_en = (uint8_t)run_en; r->chosen = (uint8_t)choice; r->cur = (uint8_t)cur;
		r->preempt = (uint8_t)S->preempt; r->fresh = (uint8_t)fresh; r->tid = (uint8_t)t; r->hash = h;
		if (choice != 0 && run_en)
			S->preempt++;
		S->npoints = idx + 1;

		if (VERBOSE) {
			char d[400];
			describe(d, sizeof(d));
			fprintf(stderr, "[vs] pt %u cur=T%d enabled=%d choose #%d -> T%d |%s\n", idx, cur, n, choice, t, d);
		}

		switch (th[t].st) {
		case T_MTX:
			mtx_owner[th[t].obj] = t;
			th[t].st = T_RUN;
			break;
		case T_COND:
			if (!th[t].woken) { SPUR_LEFT--; S->spurious_used++; }
			th[t].woken = 0;
			th[t].st = T_MTX;
			th[t].obj = th[t].obj2;
			continue;            /* woke up, now contends for the mutex: nobody runs yet */
		case T_JOIN:
			th[t].st = T_RUN;
			break;
		default:
			break;
		}

		cur = t;
		if (t == self)
			return;
		sem_post(&th[t].sem);
		if (th[self].st == T_DONE)
			return;              /* exiting thread: do not wait */
		while (sem_wait(&th[self].sem) != 0)
			;
		return;
	}
}

static int find_mtx(void *m)
{
	for (int i = 0; i < nmtx; ++i)
		if (mtx_addr[i] == m)
			return i;
	vs_fail(VS_DIVERGENCE, "unknown mutex %p", m);
}

static int find_cond(void *c)
{
	for (int i = 0; i < ncond; ++i)
		if (cond_addr[i] == c)
			return i;
	vs_fail(VS_DIVERGENCE, "unknown condvar %p", c);
}

int vs_mutex_init(void *m)
{
	if (nmtx >= VS_MAX_OBJ) vs_fail(VS_DIVERGENCE, "too many mutexes");
	mtx_addr[nmtx] = m; mtx_owner[nmtx] = -1; nmtx++;
	return 0;
}

int vs_mutex_destroy(void *m)
{
	int i = find_mtx(m);
	if (mtx_owner[i] >= 0)
		vs_fail(VS_ORACLE, "mutex destroyed while held by T%d", mtx_owner[i]);
	mtx_addr[i] = NULL;
	return 0;
}

int vs_mutex_lock(void *m, int pc)
{
	int i = find_mtx(m), self = self_id;
	if (mtx_owner[i] == self)
		vs_fail(VS_DEADLOCK, "T%d relocks a mutex it holds (pc %d)", self, pc);
	th[self].st = T_MTX; th[self].obj = i; th[self].pc = pc;
	schedule();
	return 0;
}

int vs_mutex_unlock(void *m, int pc)
{
	int i = find_mtx(m), self = self_id;
	if (mtx_owner[i] != self)
		vs_fail(VS_ORACLE, "T%d unlocks a mutex it does not hold (pc %d)", self, pc);
	mtx_owner[i] = -1;
	th[self].pc = pc;
	/* scheduling point after the release: what the thread does next without the lock can interleave with
	   threads that were waiting for it (optional: VS_UNLOCK_POINT) */
	if (UNLOCK_POINT) {
		th[self].st = T_RUN;
		schedule();
	}
	return 0;
}

int vs_cond_init(void *c)
{
	if (ncond >= VS_MAX_OBJ) vs_fail(VS_DIVERGENCE, "too many condvars");
	cond_addr[ncond++] = c;
	return 0;
}

int vs_cond_destroy(void *c)
{
	int i = find_cond(c);
	for (int t = 0; t < nth; ++t)
		if (th[t].st == T_COND && th[t].obj == i)
			vs_fail(VS_ORACLE, "condvar destroyed while T%d waits on it", t);
	cond_addr[i] = NULL;
	return 0;
}

int vs_cond_wait(void *c, void *m, int pc)
{
	int ci = find_cond(c), mi = find_mtx(m), self = self_id;
	if (mtx_owner[mi] != self)
		vs_fail(VS_ORACLE, "T%d cond_wait without holding the mutex (pc %d)", self, pc);
	/* scheduling point between the (locked) evaluation of the wait condition and the wait itself: threads that
	   touch the shared state WITHOUT the mutex can run here (lost wake-up window) */
	th[self].st = T_RUN; th[self].pc = -pc;
	schedule();
	mtx_owner[mi] = -1;
	th[self].st = T_COND; th[self].obj = ci; th[self].obj2 = mi; th[self].woken = 0; th[self].pc = pc;
	schedule();
	return 0;
}

int vs_cond_broadcast(void *c, int pc)
{
	int ci = find_cond(c);
	(void)pc;
	for (int t = 0; t < nth; ++t)
		if (th[t].st == T_COND && th[t].obj == ci)
			th[t].woken = 1;
	return 0;
}

static void *trampoline(void *arg)
{
	int id = (int)(intptr_t)arg;
	self_id = id;
	while (sem_wait(&th[id].sem) != 0)
		;
	th[id].fn(th[id].arg);
	th[id].st = T_DONE;
	th[id].pc = -1;
	schedule();
	return NULL;
}

int vs_fail_create_at;
static int n_creates;

int vs_thread_create(pthread_t *t, void *(*fn)(void *), void *arg)
{
	if (vs_fail_create_at && ++n_creates == vs_fail_create_at)
		return 11;	/* EAGAIN */
	if (nth >= VS_MAX_THREADS) vs_fail(VS_DIVERGENCE, "too many threads");
	int id = nth;
	th[id].st = T_RUN; th[id].fn = fn; th[id].arg = arg; th[id].pc = 0;
	sem_init(&th[id].sem, 0, 0);
	nth++;
	if (pthread_create(&th[id].real, NULL, trampoline, (void *)(intptr_t)id) != 0) {
		nth--;
		return -1;
	}
	pthread_detach(th[id].real);
	*t = (pthread_t)(uintptr_t)(id + 1000);
	if (vs_fail_create_at) {
		/* creation-failure configurations: the new thread may run before its creator goes on */
		int self = self_id;
		th[self].st = T_RUN; th[self].pc = 900 + id;
		schedule();
	}
	return 0;
}

int vs_thread_join(pthread_t t, int pc)
{
	int id = (int)((uintptr_t)t - 1000), self = self_id;
	if (id <= 0 || id >= nth) vs_fail(VS_DIVERGENCE, "join of unknown thread");
	th[self].st = T_JOIN; th[self].obj = id; th[self].pc = pc;
	schedule();
	return 0;
}

void vs_yield(int pc)
{
	int self = self_id;
	th[self].st = T_RUN; th[self].pc = pc;
	schedule();
}
