/* Controlled scheduler: real threads, serialised; every synchronisation
 * operation is a scheduling point whose choice is dictated by the explorer. */
#ifndef VS_H
#define VS_H
#include <stdint.h>
#include <stddef.h>
#include <pthread.h>

#define VS_MAX_THREADS 8
#define VS_MAX_OBJ 16
#define VS_HORIZON 4096

/* outcomes written by the child */
enum {
	VS_OK = 0, VS_PRUNED = 10, VS_DEADLOCK = 3, VS_ORACLE = 4, VS_LIVELOCK = 5,
	VS_DIVERGENCE = 6, VS_RUNNING = 7
};

typedef struct {
	uint8_t nen;       /* number of enabled threads at this point */
	uint8_t run_en;    /* was the running thread among them (=> choice!=0 is a preemption) */
	uint8_t chosen;    /* index into the canonical enabled list */
	uint8_t cur;       /* running thread id */
	uint8_t preempt;   /* preemptions used before this point */
	uint8_t fresh;     /* state inserted into the visited table by this execution */
	uint8_t tid;       /* thread id chosen */
	uint8_t pad;
	uint64_t hash;
} vs_rec_t;

typedef struct {
	volatile uint32_t npoints;
	volatile int outcome;
	uint32_t preempt;
	uint32_t spurious_used;
	uint64_t result_hash;      /* hash of the harness-observable result */
	char result[512];          /* harness-observable result, text */
	char msg[1024];            /* failure description */
	vs_rec_t rec[VS_HORIZON];
} vs_shared_t;

typedef struct {
	uint64_t *keys;            /* open addressing, 0 = empty */
	uint8_t *cost;
	uint64_t mask;
	volatile uint64_t *count;
} vs_visited_t;

typedef void (*vs_hash_cb_t)(uint64_t *h);

/* explorer side */
void vs_setup(vs_shared_t *sh, const uint8_t *prefix, const uint8_t *prefix_nen, uint32_t prefix_len,
	      int bound, int spurious_budget, vs_visited_t *vis, int verbose);
void vs_end(void);                       /* main thread: harness body finished */

/* harness side */
void vs_set_hash_cb(vs_hash_cb_t cb);
void vs_hash_mix(uint64_t *h, uint64_t v);
void vs_yield(int pc);
/* fault: the k-th (1-based) thread creation fails with EAGAIN; while set, every successful creation is a scheduling point */
extern int vs_fail_create_at;
void vs_fail(int outcome, const char *fmt, ...) __attribute__((noreturn, format(printf, 2, 3)));
void vs_result(const char *fmt, ...) __attribute__((format(printf, 1, 2)));
int vs_self(void);

/* shim targets */
int vs_mutex_init(void *m);
int vs_mutex_destroy(void *m);
int vs_mutex_lock(void *m, int pc);
int vs_mutex_unlock(void *m, int pc);
int vs_cond_init(void *c);
int vs_cond_destroy(void *c);
int vs_cond_wait(void *c, void *m, int pc);
int vs_cond_broadcast(void *c, int pc);
int vs_thread_create(pthread_t *t, void *(*fn)(void *), void *arg);
int vs_thread_join(pthread_t t, int pc);

#endif
