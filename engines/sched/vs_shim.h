/* Force-included (-include) into translation units whose pthread calls are to be
 * routed through the controlled scheduler. The repository's sources are compiled
 * unmodified; call sites carry __LINE__ as a program-counter label. */
#ifndef VS_SHIM_H
#define VS_SHIM_H
#include <pthread.h>
#include <signal.h>
#include "vs.h"

#ifndef VS_FREE_RUNNING
#define pthread_mutex_init(m, a)      vs_mutex_init((void *)(m))
#define pthread_mutex_destroy(m)      vs_mutex_destroy((void *)(m))
#define pthread_mutex_lock(m)         vs_mutex_lock((void *)(m), __LINE__)
#define pthread_mutex_unlock(m)       vs_mutex_unlock((void *)(m), __LINE__)
#define pthread_cond_init(c, a)       vs_cond_init((void *)(c))
#define pthread_cond_destroy(c)       vs_cond_destroy((void *)(c))
#define pthread_cond_wait(c, m)       vs_cond_wait((void *)(c), (void *)(m), __LINE__)
#define pthread_cond_broadcast(c)     vs_cond_broadcast((void *)(c), __LINE__)
#define pthread_cond_signal(c)        vs_cond_broadcast((void *)(c), __LINE__)
#define pthread_create(t, a, f, arg)  vs_thread_create((t), (f), (arg))
#define pthread_join(t, r)            vs_thread_join((t), __LINE__)
#define pthread_sigmask(h, s, o)      (0)
#endif
#endif
