/* Stateless explorer: depth-first over choice sequences, one forked child per
 * execution, state-hash pruning through a shared visited table, W worker
 * processes sharing one work stack.
 *
 * usage: <harness> [--bound B|-1] [--spur S] [--procs P] [--deadline SEC]
 *                  [--save FILE] [--replay FILE] [--nohash] -- <harness args>
 * stdout: one JSON object. exit 0 = explored without violation (capped or not),
 *         1 = violation, 2 = harness/replay error.
 */
#define _GNU_SOURCE
#include "vs.h"
#include <errno.h>
#include <signal.h>
#include <stdio.h>
#include <stdlib.h>
#include <string.h>
#include <unistd.h>
#include <time.h>
#include <sys/mman.h>
#include <sys/wait.h>

extern int harness_main(int argc, char **argv);

#define ARENA (1ULL << 31)
#define MAXOUT 64

typedef struct {
	pthread_mutex_t mtx;
	uint64_t top;
	int busy, stop, capped, worker_error;
	uint64_t execs, transitions, pruned, complete, entries_pushed;
	uint32_t maxdepth;
	int viol_outcome;           /* first violation */
	int viol_status;
	uint32_t viol_len;
	uint8_t viol_choices[VS_HORIZON];
	uint8_t viol_tids[VS_HORIZON];
	char viol_msg[1024];
	int nout;
	uint64_t out_hash[MAXOUT];
	uint64_t out_count[MAXOUT];
	char out_text[MAXOUT][512];
	uint64_t vcount;
} ctl_t;

static ctl_t *C;
static uint8_t *arena;
static vs_visited_t VIS;
static int BOUND = -1, SPUR = 0, PROCS = 16, NOHASH = 0;
static double DEADLINE = 0;
static int hargc;
static char **hargv;

static double now(void)
{
	struct timespec ts;
	clock_gettime(CLOCK_MONOTONIC, &ts);
	return ts.tv_sec + ts.tv_nsec * 1e-9;
}

static void *shm(size_t n)
{
	void *p = mmap(NULL, n, PROT_READ | PROT_WRITE, MAP_SHARED | MAP_ANONYMOUS | MAP_NORESERVE, -1, 0);
	if (p == MAP_FAILED) { perror("mmap"); exit(2); }
	return p;
}

/* stack entry: choices[len] nen[len] len(u16) */
static void push(const uint8_t *ch, const uint8_t *nen, uint16_t len)
{
	if (C->top + 2ULL * len + 2 > ARENA) { fprintf(stderr, "work arena full\n"); C->stop = 1; C->capped = 1; return; }
	memcpy(arena + C->top, ch, len);
	memcpy(arena + C->top + len, nen, len);
	memcpy(arena + C->top + 2 * len, &len, 2);
	C->top += 2ULL * len + 2;
	C->entries_pushed++;
}

static int pop(uint8_t *ch, uint8_t *nen, uint16_t *len)
{
	if (C->top == 0)
		return 0;
	memcpy(len, arena + C->top - 2, 2);
	C->top -= 2ULL * (*len) + 2;
	memcpy(ch, arena + C->top, *len);
	memcpy(nen, arena + C->top + *len, *len);
	return 1;
}

static int exec_limit(void)
{
	const char *e = getenv("VS_EXEC_LIMIT");
	int n = e ? atoi(e) : 0;
	return n > 0 ? n : 20;
}

static void exec_watchdog(int sig)
{
	(void)sig;
	vs_fail(VS_LIVELOCK, "execution did not finish within %d s of wall clock time: a thread spins without reaching a scheduling point or the end", exec_limit());
}

static int run_child(vs_shared_t *sh, const uint8_t *ch, const uint8_t *nen, uint16_t len, int verbose, int use_vis)
{
	pid_t pid;
	for (int tries = 0; (pid = fork()) < 0; ++tries) {
		if (errno != EAGAIN || tries > 2000) { perror("fork"); C->stop = 1; C->worker_error = 1; _exit(2); }
		usleep(1000);
	}
	if (pid == 0) {
		vs_setup(sh, ch, nen, len, BOUND, SPUR, use_vis ? &VIS : NULL, verbose);
		/* watchdog: an execution that spins without ever reaching a scheduling point (or the end) would block the exploration forever */
		signal(SIGALRM, exec_watchdog);
		alarm((unsigned)exec_limit());
		harness_main(hargc, hargv);
		vs_end();
		_exit(0);
	}
	int st;
	while (waitpid(pid, &st, 0) < 0 && errno == EINTR)
		;
	return st;
}

static void record_outcome(vs_shared_t *sh)
{
	for (int i = 0; i < C->nout; ++i)
		if (C->out_hash[i] == sh->result_hash) { C->out_count[i]++; return; }
	if (C->nout < MAXOUT) {
		int i = C->nout++;
		C->out_hash[i] = sh->result_hash;
		C->out_count[i] = 1;
		memcpy(C->out_text[i], sh->result, sizeof(sh->result));
	}
}

static void worker(void)
{
	vs_shared_t *sh = shm(sizeof(*sh));
	static uint8_t ch[VS_HORIZON], nen[VS_HORIZON];
	static uint8_t ach[VS_HORIZON], anen[VS_HORIZON];
	uint16_t len;

	for (;;) {
		pthread_mutex_lock(&C->mtx);
		if (C->stop) { pthread_mutex_unlock(&C->mtx); break; }
		if (!pop(ch, nen, &len)) {
			int b = C->busy;
			pthread_mutex_unlock(&C->mtx);
			if (b == 0)
				break;
			usleep(100);
			continue;
		}
		C->busy++;
		pthread_mutex_unlock(&C->mtx);

		int st = run_child(sh, ch, nen, len, 0, !NOHASH);
		uint32_t np = sh->npoints;
		int violation = 0, code = 0;

		if (WIFEXITED(st)) {
			code = WEXITSTATUS(st);
			if (code != 0 && code != VS_PRUNED)
				violation = 1;
			if (code == 0 && sh->outcome != VS_OK) { violation = 1; code = 100; }
		} else {
			violation = 1;
			code = 128 + (WIFSIGNALED(st) ? WTERMSIG(st) : 0);
		}

		pthread_mutex_lock(&C->mtx);
		C->execs++;
		C->transitions += (np > len ? np - len : 0) + (len ? 1 : 0);
		if (np > C->maxdepth) C->maxdepth = np;
		if (code == VS_PRUNED) C->pruned++;
		if (code == 0) { C->complete++; record_outcome(sh); }
		if (violation && !C->stop) {
			C->stop = 1;
			C->viol_outcome = code;
			C->viol_status = st;
			C->viol_len = np;
			for (uint32_t i = 0; i < np; ++i) { C->viol_choices[i] = sh->rec[i].chosen; C->viol_tids[i] = sh->rec[i].tid; }
			if (sh->outcome != VS_RUNNING && sh->msg[0])
				memcpy(C->viol_msg, sh->msg, sizeof(C->viol_msg));
			else
				snprintf(C->viol_msg, sizeof(C->viol_msg), "child died: wait status 0x%x (exit %d / signal %d) — sanitizer report or crash",
					 st, WIFEXITED(st) ? WEXITSTATUS(st) : -1, WIFSIGNALED(st) ? WTERMSIG(st) : 0);
		}
		if (!violation) {
			/* branch on every new point of this execution */
			for (uint32_t i = 0; i < np; ++i) { ach[i] = sh->rec[i].chosen; anen[i] = sh->rec[i].nen; }
			/* push deepest first so that shallow alternatives are popped last (DFS) */
			for (uint32_t i = len; i < np; ++i) {
				vs_rec_t *r = &sh->rec[i];
				if (!NOHASH && !r->fresh)
					continue;
				for (int alt = 1; alt < r->nen; ++alt) {
					int cost = r->preempt + (r->run_en ? 1 : 0);
					if (BOUND >= 0 && cost > BOUND)
						continue;
					uint8_t save = ach[i];
					ach[i] = (uint8_t)alt;
					push(ach, anen, (uint16_t)(i + 1));
					ach[i] = save;
				}
			}
		}
		C->busy--;
		pthread_mutex_unlock(&C->mtx);
	}
	_exit(0);
}

static void json_str(const char *s)
{
	putchar('"');
	for (; *s; ++s) {
		if (*s == '"' || *s == '\\') { putchar('\\'); putchar(*s); }
		else if (*s == '\n') fputs("\\n", stdout);
		else if ((unsigned char)*s < 32) putchar(' ');
		else putchar(*s);
	}
	putchar('"');
}

int main(int argc, char **argv)
{
	const char *save = NULL, *replay = NULL;
	int i;
	for (i = 1; i < argc; ++i) {
		if (!strcmp(argv[i], "--")) { ++i; break; }
		else if (!strcmp(argv[i], "--bound")) BOUND = atoi(argv[++i]);
		else if (!strcmp(argv[i], "--spur")) SPUR = atoi(argv[++i]);
		else if (!strcmp(argv[i], "--procs")) PROCS = atoi(argv[++i]);
		else if (!strcmp(argv[i], "--deadline")) DEADLINE = atof(argv[++i]);
		else if (!strcmp(argv[i], "--save")) save = argv[++i];
		else if (!strcmp(argv[i], "--replay")) replay = argv[++i];
		else if (!strcmp(argv[i], "--nohash")) NOHASH = 1;
		else { fprintf(stderr, "unknown option %s\n", argv[i]); return 2; }
	}
	hargc = argc - i + 1;
	hargv = argv + i - 1;
	hargv[0] = argv[0];

	C = shm(sizeof(*C));
	if (replay) {
		/* file: one choice per whitespace-separated token */
		static uint8_t ch[VS_HORIZON];
		uint16_t len = 0;
		FILE *f = fopen(replay, "r");
		if (!f) { perror(replay); return 2; }
		int v;
		while (len < VS_HORIZON && fscanf(f, "%d", &v) == 1) ch[len++] = (uint8_t)v;
		fclose(f);
		vs_shared_t *sh = shm(sizeof(*sh));
		int st = run_child(sh, ch, NULL, len, 1, 0);
		int code = WIFEXITED(st) ? WEXITSTATUS(st) : 128 + WTERMSIG(st);
		printf("{\"replay\":true,\"exit\":%d,\"outcome\":%d,\"points\":%u,\"msg\":", code, sh->outcome, sh->npoints);
		json_str(sh->msg);
		printf(",\"result\":");
		json_str(sh->result);
		printf("}\n");
		return code == 0 ? 0 : 1;
	}

	arena = shm(ARENA);
	pthread_mutexattr_t ma;
	pthread_mutexattr_init(&ma);
	pthread_mutexattr_setpshared(&ma, PTHREAD_PROCESS_SHARED);
	pthread_mutex_init(&C->mtx, &ma);
	uint64_t slots = 1ULL << 25;
	VIS.keys = shm(slots * 8);
	VIS.cost = shm(slots);
	VIS.mask = slots - 1;
	VIS.count = &C->vcount;
	/* cost bytes start at 0 (fresh mmap); an entry whose key is set but whose cost is not yet
	 * written reads cost 0 => a concurrent arrival might be pruned wrongly. Avoid by storing cost+1
	 * semantics: handled in vs.c through release/acquire ordering on keys (cost written right after
	 * the CAS; the window is a few instructions). To be safe we bias: initialise to 0xFF. */
	memset(VIS.cost, 0xFF, slots);

	double t0 = now();
	uint8_t dummy = 0;
	push(&dummy, &dummy, 0);

	pid_t pids[64];
	if (PROCS > 64) PROCS = 64;
	for (int p = 0; p < PROCS; ++p) {
		pids[p] = fork();
		if (pids[p] == 0) worker();
	}
	int alive = PROCS;
	while (alive > 0) {
		int st;
		pid_t r = waitpid(-1, &st, WNOHANG);
		if (r > 0) {
			alive--;
			if (!WIFEXITED(st) || WEXITSTATUS(st) != 0) { C->worker_error = 1; C->stop = 1; }
			continue;
		}
		if (DEADLINE > 0 && now() - t0 > DEADLINE && !C->stop) { C->capped = 1; C->stop = 1; }
		usleep(2000);
	}
	double wall = now() - t0;

	if (C->worker_error) { fprintf(stderr, "explorer worker died\n"); return 2; }
	int violation = C->viol_outcome != 0;
	int replayed = 0;
	if (violation) {
		/* replay before report */
		vs_shared_t *sh = shm(sizeof(*sh));
		int st = run_child(sh, C->viol_choices, NULL, (uint16_t)C->viol_len, 0, 0);
		int code = WIFEXITED(st) ? WEXITSTATUS(st) : 128 + WTERMSIG(st);
		replayed = (code == C->viol_outcome);
		if (save) {
			FILE *f = fopen(save, "w");
			if (f) {
				for (uint32_t k = 0; k < C->viol_len; ++k) fprintf(f, "%d ", C->viol_choices[k]);
				fprintf(f, "\n");
				fclose(f);
			}
		}
	}

	printf("{\"bound\":%d,\"spurious_budget\":%d,\"procs\":%d,\"executions\":%llu,\"complete_executions\":%llu,\"pruned_executions\":%llu,"
	       "\"states\":%llu,\"transitions\":%llu,\"max_depth\":%u,\"capped\":%s,\"wall_s\":%.2f,\"distinct_outcomes\":%d,\"outcomes\":[",
	       BOUND, SPUR, PROCS, (unsigned long long)C->execs, (unsigned long long)C->complete, (unsigned long long)C->pruned,
	       (unsigned long long)C->vcount, (unsigned long long)C->transitions, C->maxdepth, C->capped ? "true" : "false", wall, C->nout);
	for (int k = 0; k < C->nout; ++k) {
		printf("%s{\"count\":%llu,\"result\":", k ? "," : "", (unsigned long long)C->out_count[k]);
		json_str(C->out_text[k]);
		printf("}");
	}
	printf("],\"violation\":");
	if (violation) {
		printf("{\"outcome\":%d,\"replayed_same\":%s,\"points\":%u,\"msg\":", C->viol_outcome, replayed ? "true" : "false", C->viol_len);
		json_str(C->viol_msg);
		printf(",\"schedule_threads\":[");
		for (uint32_t k = 0; k < C->viol_len; ++k) printf("%s%d", k ? "," : "", C->viol_tids[k]);
		printf("],\"schedule_choices\":[");
		for (uint32_t k = 0; k < C->viol_len; ++k) printf("%s%d", k ? "," : "", C->viol_choices[k]);
		printf("]}");
	} else {
		printf("null");
	}
	printf("}\n");
	return violation ? 1 : 0;
}
