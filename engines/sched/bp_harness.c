/* C02/C08/C09 harness: the repository's block processor (frontend.c, backend.c, block_processor.c, block_writer.c,
 * frag_table.c, ...) on top of the repository's threadpool.c under the controlled scheduler.
 * This TU #includes threadpool.c (private pool state visible for hashing); all other sources are compiled unmodified,
 * block_processor.c with -Dthread_pool_create=bp_pool_create so that the harness can choose serial vs. threaded pool.
 *
 * args: <workers> <backlog> <scenario> [flags]
 * scenario: comma separated files; a file is a sequence of tokens
 *     X<n>   n full blocks, every byte = X (compressible; equal letters => duplicate blocks)
 *     x<n>   n full blocks of an incompressible pattern seeded by x
 *     0<n>   n all-zero blocks (sparse)
 *     +X<n>  tail of n bytes (n < block size) of pattern X (upper: compressible, lower: incompressible)
 *     !<n>   n full blocks on which the toy compressor fails (failure scenarios)
 *   file prefix flags: 'F' = DONT_FRAGMENT, 'D' = DONT_DEDUPLICATE, 'C' = DONT_COMPRESS for that file (e.g. "F:a2+q5")
 * Oracle: output file bytes, fragment table and every inode == serial-pool run of the same scenario, and the serial-pool
 * result itself is the same for backlog 1, the given backlog and an unbounded backlog (the image must not depend on -Q).
 */
#include "lib/util/src/threadpool.c"
#include "lib/sqfs/src/block_processor/internal.h"

#include "sqfs/block_writer.h"
#include "sqfs/frag_table.h"
#include "sqfs/inode.h"

#include <stdio.h>
#include <stdarg.h>

#ifdef VS_FREE_RUNNING
static void vs_fail(int o, const char *fmt, ...) { va_list ap; va_start(ap, fmt); vfprintf(stderr, fmt, ap); va_end(ap); fprintf(stderr, "\n"); _Exit(o); }
static void vs_result(const char *fmt, ...) { (void)fmt; }
static void vs_set_hash_cb(void *cb) { (void)cb; }
static int vs_self(void) { return 0; }
static void vs_hash_mix(uint64_t *h, uint64_t v) { *h = (*h ^ v) * 1099511628211ULL; }
#define VS_ORACLE 4
#endif

#define BS 32
#define MAXFILES 6
#define MEMSZ 8192

/* ------------------------------------------------------------------ memory file */
typedef struct {
	sqfs_file_t base;
	sqfs_u8 data[MEMSZ];
	size_t size;
	int nwrites, ntruncs;
} memfile_t;

static int mem_read_at(sqfs_file_t *f, sqfs_u64 off, void *buf, size_t size)
{
	memfile_t *m = (memfile_t *)f;
	if (off + size > m->size)
		return SQFS_ERROR_OUT_OF_BOUNDS;
	memcpy(buf, m->data + off, size);
	return 0;
}

static int mem_write_at(sqfs_file_t *f, sqfs_u64 off, const void *buf, size_t size)
{
	memfile_t *m = (memfile_t *)f;
	if (off + size > MEMSZ)
		return SQFS_ERROR_IO;
	if (off > m->size)
		memset(m->data + m->size, 0, off - m->size);
	memcpy(m->data + off, buf, size);
	if (off + size > m->size)
		m->size = off + size;
	m->nwrites++;
	return 0;
}

static sqfs_u64 mem_get_size(const sqfs_file_t *f) { return ((const memfile_t *)f)->size; }

static int mem_truncate(sqfs_file_t *f, sqfs_u64 size)
{
	memfile_t *m = (memfile_t *)f;
	if (size > MEMSZ)
		return SQFS_ERROR_IO;
	if (size > m->size)
		memset(m->data + m->size, 0, size - m->size);
	m->size = size;
	m->ntruncs++;
	return 0;
}

static const char *mem_get_filename(sqfs_file_t *f) { (void)f; return "mem"; }
static void mem_destroy(sqfs_object_t *o) { free(o); }

static memfile_t *memfile_create(void)
{
	memfile_t *m = calloc(1, sizeof(*m));
	sqfs_object_init(m, mem_destroy, NULL);
	m->base.read_at = mem_read_at;
	m->base.write_at = mem_write_at;
	m->base.get_size = mem_get_size;
	m->base.truncate = mem_truncate;
	m->base.get_filename = mem_get_filename;
	return m;
}

/* ------------------------------------------------------------------ toy run-length compressor */
typedef struct { sqfs_compressor_t base; int uncompress; } toy_t;

static void toy_get_configuration(const sqfs_compressor_t *c, sqfs_compressor_config_t *cfg) { (void)c; memset(cfg, 0, sizeof(*cfg)); }
static int toy_write_options(sqfs_compressor_t *c, sqfs_file_t *f) { (void)c; (void)f; return 0; }
static int toy_read_options(sqfs_compressor_t *c, sqfs_file_t *f) { (void)c; (void)f; return 0; }

static sqfs_s32 toy_do_block(sqfs_compressor_t *c, const sqfs_u8 *in, sqfs_u32 size, sqfs_u8 *out, sqfs_u32 outsize)
{
	toy_t *t = (toy_t *)c;
	sqfs_u32 o = 0;
	if (!t->uncompress) {
		if (size > 0 && in[0] == '!')
			return SQFS_ERROR_COMPRESSOR;
		for (sqfs_u32 i = 0; i < size;) {
			sqfs_u32 j = i;
			while (j < size && in[j] == in[i] && j - i < 255) ++j;
			if (o + 2 > outsize || o + 2 >= size)
				return 0;
			out[o++] = (sqfs_u8)(j - i);
			out[o++] = in[i];
			i = j;
		}
		return (sqfs_s32)o;
	}
	for (sqfs_u32 i = 0; i + 1 < size; i += 2) {
		if (o + in[i] > outsize)
			return SQFS_ERROR_OVERFLOW;
		memset(out + o, in[i + 1], in[i]);
		o += in[i];
	}
	return (sqfs_s32)o;
}

static sqfs_object_t *toy_copy(const sqfs_object_t *o) { toy_t *t = malloc(sizeof(*t)); memcpy(t, o, sizeof(*t)); return (sqfs_object_t *)t; }
static void toy_destroy(sqfs_object_t *o) { free(o); }

static sqfs_compressor_t *toy_create(int uncompress)
{
	toy_t *t = calloc(1, sizeof(*t));
	sqfs_object_init(t, toy_destroy, toy_copy);
	t->base.get_configuration = toy_get_configuration;
	t->base.write_options = toy_write_options;
	t->base.read_options = toy_read_options;
	t->base.do_block = toy_do_block;
	t->uncompress = uncompress;
	return (sqfs_compressor_t *)t;
}

/* ------------------------------------------------------------------ pool hook */
static int serial_mode;
static thread_pool_worker_t real_worker;
static thread_pool_impl_t *g_pool;
static sqfs_block_t *cur_block[VS_MAX_THREADS];
static int cur_ret[VS_MAX_THREADS];

static int wrap_cb(void *user, void *item)
{
	int me = vs_self();
	cur_block[me] = item;
	int r = real_worker(user, item);
	cur_ret[me] = r;
	return r;
}

thread_pool_t *bp_pool_create(size_t n, thread_pool_worker_t w);
thread_pool_t *bp_pool_create(size_t n, thread_pool_worker_t w)
{
	real_worker = w;
	if (serial_mode)
		return thread_pool_create_serial(wrap_cb);
	thread_pool_t *p = thread_pool_create(n, wrap_cb);
	g_pool = (thread_pool_impl_t *)p;
	return p;
}

/* ------------------------------------------------------------------ scenario */
typedef struct { sqfs_u8 data[BS * 8 + BS]; size_t size; sqfs_u32 flags; } file_t;
static file_t files[MAXFILES];
static int nfiles;

static void fill_block(sqfs_u8 *dst, char c, size_t n)
{
	if (c == '0') { memset(dst, 0, n); return; }
	if ((c >= 'A' && c <= 'Z') || c == '!') { memset(dst, c, n); return; }
	for (size_t i = 0; i < n; ++i)
		dst[i] = (sqfs_u8)(c + (i * 7 + (i >> 2)) % 23 + ((i & 1) ? 64 : 0));
}

static void parse_scenario(const char *s)
{
	nfiles = 0;
	while (*s && nfiles < MAXFILES) {
		file_t *f = &files[nfiles++];
		memset(f, 0, sizeof(*f));
		const char *colon = strchr(s, ':');
		const char *comma = strchr(s, ',');
		if (colon && (!comma || colon < comma)) {
			for (; s < colon; ++s) {
				if (*s == 'F') f->flags |= SQFS_BLK_DONT_FRAGMENT;
				if (*s == 'D') f->flags |= SQFS_BLK_DONT_DEDUPLICATE;
				if (*s == 'C') f->flags |= SQFS_BLK_DONT_COMPRESS;
			}
			s = colon + 1;
		}
		while (*s && *s != ',') {
			int tail = 0;
			if (*s == '+') { tail = 1; ++s; }
			char c = *s++;
			int n = 0;
			while (*s >= '0' && *s <= '9') n = n * 10 + (*s++ - '0');
			if (tail) {
				if (n >= BS) n = BS - 1;
				fill_block(f->data + f->size, c, (size_t)n);
				f->size += (size_t)n;
			} else {
				for (int i = 0; i < n && f->size + BS <= sizeof(f->data); ++i) {
					fill_block(f->data + f->size, c, BS);
					f->size += BS;
				}
			}
		}
		if (*s == ',') ++s;
	}
}

/* ------------------------------------------------------------------ one run */
typedef struct {
	sqfs_u8 out[MEMSZ];
	size_t out_size;
	char desc[2048];
	int status;
	int nwrites;
} snap_t;

static sqfs_block_processor_t *g_proc;
static memfile_t *g_mem;
static sqfs_frag_table_t *g_frag;
static sqfs_inode_generic_t *g_inodes[MAXFILES];
static int drv_file, drv_phase;

static void describe_inode(snap_t *s, int i, sqfs_inode_generic_t *n)
{
	size_t l = strlen(s->desc);
	if (n == NULL) { snprintf(s->desc + l, sizeof(s->desc) - l, "[%d:null]", i); return; }
	sqfs_u64 size = 0, start = 0;
	sqfs_u32 fi = 0, fo = 0;
	sqfs_inode_get_file_size(n, &size);
	sqfs_inode_get_file_block_start(n, &start);
	sqfs_inode_get_frag_location(n, &fi, &fo);
	l += (size_t)snprintf(s->desc + l, sizeof(s->desc) - l, "[%d:t%d sz%llu st%llu f%x/%x sp%llu b", i, n->base.type,
			      (unsigned long long)size, (unsigned long long)start, fi, fo,
			      n->base.type == SQFS_INODE_EXT_FILE ? (unsigned long long)n->data.file_ext.sparse : 0ULL);
	for (size_t k = 0; k < n->payload_bytes_used / sizeof(sqfs_u32) && l + 12 < sizeof(s->desc); ++k)
		l += (size_t)snprintf(s->desc + l, sizeof(s->desc) - l, ",%x", n->extra[k]);
	snprintf(s->desc + l, sizeof(s->desc) - l, "]");
}

/* read every file back from the output (blocks + fragment) and compare with what was fed in */
static void verify_contents(const char *who)
{
	static sqfs_u8 buf[BS * 16], tmp[BS * 4];
	sqfs_compressor_t *un = toy_create(1);
	for (int i = 0; i < nfiles; ++i) {
		sqfs_inode_generic_t *n = g_inodes[i];
		sqfs_u64 size = 0, pos = 0;
		sqfs_u32 fi = 0, fo = 0;
		size_t got = 0;
		if (n == NULL) vs_fail(VS_ORACLE, "%s: file %d has no inode", who, i);
		sqfs_inode_get_file_size(n, &size);
		sqfs_inode_get_file_block_start(n, &pos);
		sqfs_inode_get_frag_location(n, &fi, &fo);
		if (size != files[i].size)
			vs_fail(VS_ORACLE, "%s: file %d has size %llu, input had %zu", who, i, (unsigned long long)size, files[i].size);
		size_t nblk = n->payload_bytes_used / sizeof(sqfs_u32);
		for (size_t k = 0; k < nblk; ++k) {
			sqfs_u32 w = n->extra[k], ond = w & 0xFFFFFF;
			size_t want = size - got > BS ? BS : (size_t)(size - got);
			if (ond == 0) { memset(buf + got, 0, want); got += want; continue; }
			if (pos + ond > g_mem->size || ond > BS)
				vs_fail(VS_ORACLE, "%s: file %d block %zu [%llu,+%u) outside the output", who, i, k, (unsigned long long)pos, ond);
			if (w & (1 << 24)) {
				memcpy(buf + got, g_mem->data + pos, ond);
				if (ond < want) memset(buf + got + ond, 0, want - ond);
			} else {
				sqfs_s32 r = un->do_block(un, g_mem->data + pos, ond, tmp, BS);
				if (r < 0 || (size_t)r > want) vs_fail(VS_ORACLE, "%s: file %d block %zu does not unpack (%d)", who, i, k, r);
				memcpy(buf + got, tmp, (size_t)r);
				if ((size_t)r < want) memset(buf + got + r, 0, want - (size_t)r);
			}
			got += want;
			pos += ond;
		}
		if (fi != 0xFFFFFFFF && got < size) {
			sqfs_fragment_t fr;
			size_t tail = (size_t)(size - got), flen;
			if (sqfs_frag_table_lookup(g_frag, fi, &fr) != 0)
				vs_fail(VS_ORACLE, "%s: file %d fragment index %u not in table", who, i, fi);
			sqfs_u32 ond = fr.size & 0xFFFFFF;
			if (fr.start_offset + ond > g_mem->size)
				vs_fail(VS_ORACLE, "%s: fragment block %u outside the output", who, fi);
			if (fr.size & (1 << 24)) { memcpy(tmp, g_mem->data + fr.start_offset, ond); flen = ond; }
			else {
				sqfs_s32 r = un->do_block(un, g_mem->data + fr.start_offset, ond, tmp, BS);
				if (r < 0) vs_fail(VS_ORACLE, "%s: fragment block %u does not unpack", who, fi);
				flen = (size_t)r;
			}
			if (fo + tail > flen)
				vs_fail(VS_ORACLE, "%s: file %d fragment [%u,+%zu) outside block of %zu", who, i, fo, tail, flen);
			memcpy(buf + got, tmp + fo, tail);
			got += tail;
		}
		if (got != size || memcmp(buf, files[i].data, (size_t)size) != 0) {
			size_t d = 0;
			while (d < got && d < size && buf[d] == files[i].data[d]) ++d;
			vs_fail(VS_ORACLE, "%s: file %d reads back different from its input (first difference at byte %zu of %llu)", who, i, d, (unsigned long long)size);
		}
	}
	sqfs_drop(un);
}

static int run_scenario(int workers, int backlog, snap_t *snap)
{
	sqfs_block_processor_desc_t desc;
	sqfs_compressor_t *cmp = toy_create(0), *uncmp = toy_create(1);
	sqfs_block_writer_t *wr;
	int ret = 0;

	memset(snap, 0, sizeof(*snap));
	memset(g_inodes, 0, sizeof(g_inodes));
	g_mem = memfile_create();
	/* a fake super block area so that offsets are non-zero */
	sqfs_u8 hdr[8] = "HDR-HDR";
	g_mem->base.write_at(&g_mem->base, 0, hdr, sizeof(hdr));
	wr = sqfs_block_writer_create(&g_mem->base, 0);
	g_frag = sqfs_frag_table_create(0);
	if (wr == NULL || g_frag == NULL) vs_fail(VS_ORACLE, "setup failed");

	memset(&desc, 0, sizeof(desc));
	desc.size = sizeof(desc);
	desc.max_block_size = BS;
	desc.num_workers = (sqfs_u32)workers;
	desc.max_backlog = (sqfs_u32)backlog;
	desc.cmp = cmp;
	desc.wr = wr;
	desc.tbl = g_frag;
	desc.file = &g_mem->base;
	desc.uncmp = uncmp;
	drv_file = -1; drv_phase = 0;
	ret = sqfs_block_processor_create_ex(&desc, &g_proc);
	if (ret) vs_fail(VS_ORACLE, "block processor create failed: %d", ret);

	for (int i = 0; i < nfiles && ret == 0; ++i) {
		drv_file = i; drv_phase = 1;
		ret = sqfs_block_processor_begin_file(g_proc, &g_inodes[i], NULL, files[i].flags);
		if (ret) break;
		drv_phase = 2;
		if (files[i].size > 0)
			ret = sqfs_block_processor_append(g_proc, files[i].data, files[i].size);
		if (ret) break;
		drv_phase = 3;
		ret = sqfs_block_processor_end_file(g_proc);
	}
	drv_file = nfiles; drv_phase = 4;
	if (ret == 0)
		ret = sqfs_block_processor_finish(g_proc);
	drv_phase = 5;
	snap->status = ret;

	if (ret == 0) {
		verify_contents(serial_mode ? "serial pool" : "threaded pool");
		memcpy(snap->out, g_mem->data, g_mem->size);
		snap->out_size = g_mem->size;
		snap->nwrites = g_mem->nwrites;
		for (int i = 0; i < nfiles; ++i)
			describe_inode(snap, i, g_inodes[i]);
		size_t l = strlen(snap->desc);
		size_t nf = sqfs_frag_table_get_size(g_frag);
		for (size_t k = 0; k < nf && l + 40 < sizeof(snap->desc); ++k) {
			sqfs_fragment_t fr;
			sqfs_frag_table_lookup(g_frag, (sqfs_u32)k, &fr);
			l += (size_t)snprintf(snap->desc + l, sizeof(snap->desc) - l, "{F%zu:%llu/%x}", k,
					      (unsigned long long)fr.start_offset, fr.size);
		}
	}

	sqfs_block_processor_t *p = g_proc;
	drv_phase = 6;
	/* destruction frees the block lists before it shuts the pool down: stop looking at them */
	g_proc = NULL;
	memset(cur_block, 0, sizeof(cur_block));
	sqfs_drop(p);
	g_pool = NULL;
	for (int i = 0; i < nfiles; ++i) { free(g_inodes[i]); g_inodes[i] = NULL; }
	sqfs_drop(wr);
	sqfs_drop(g_frag); g_frag = NULL;
	sqfs_drop(cmp);
	sqfs_drop(uncmp);
	sqfs_drop(g_mem); g_mem = NULL;
	drv_phase = 7;
	return ret;
}

/* ------------------------------------------------------------------ state hash */
#ifndef VS_FREE_RUNNING
static uint64_t hash_bytes(const void *p, size_t n)
{
	uint64_t h = 1469598103934665603ULL;
	const unsigned char *b = p;
	for (size_t i = 0; i < n; ++i) { h ^= b[i]; h *= 1099511628211ULL; }
	return h;
}

static uint64_t hash_block(const sqfs_block_t *b)
{
	if (b == NULL) return 7;
	uint64_t h = hash_bytes(b->data, b->size <= BS ? b->size : BS);
	vs_hash_mix(&h, (uint64_t)b->flags | (uint64_t)b->size << 32);
	vs_hash_mix(&h, (uint64_t)b->checksum | (uint64_t)b->index << 32);
	vs_hash_mix(&h, (uint64_t)b->io_seq_num | ((uint64_t)(b->inode ? (uint64_t)(b->inode - g_inodes) + 1 : 0) << 32));
	return h;
}

static void hash_wlist(uint64_t *h, work_item_t *l, int tag)
{
	vs_hash_mix(h, (uint64_t)tag << 40);
	for (int g = 0; l && g < 64; l = l->next, ++g) {
		vs_hash_mix(h, l->ticket_number);
		vs_hash_mix(h, hash_block(l->data));
	}
}

static void hash_blist(uint64_t *h, sqfs_block_t *l, int tag, int content)
{
	vs_hash_mix(h, (uint64_t)tag << 44);
	int n = 0;
	for (; l && n < 64; l = l->next, ++n)
		if (content) vs_hash_mix(h, hash_block(l));
	vs_hash_mix(h, (uint64_t)n);
}

static void state_cb(uint64_t *h)
{
	thread_pool_impl_t *p = g_pool;
	sqfs_block_processor_t *pr = g_proc;
	vs_hash_mix(h, (uint64_t)drv_file << 8 | (uint64_t)drv_phase);
	if (p) {
		vs_hash_mix(h, p->next_ticket | (uint64_t)p->next_dequeue_ticket << 16 | (uint64_t)p->item_count << 32 | (uint64_t)(uint32_t)p->status << 40);
		hash_wlist(h, p->queue, 1);
		hash_wlist(h, p->done, 2);
		hash_wlist(h, p->safe_done, 3);
		int rl = 0;
		for (work_item_t *l = p->recycle; l && rl < 64; l = l->next) rl++;
		vs_hash_mix(h, 0x9900000000ULL | (uint64_t)rl);
		for (size_t i = 0; i < p->num_workers; ++i)
			vs_hash_mix(h, 0x7700000000ULL | (uint64_t)(p->workers[i].user != NULL) << 8 | i);
	}
	for (int t = 1; t < VS_MAX_THREADS; ++t) {
		vs_hash_mix(h, hash_block(cur_block[t]));
		vs_hash_mix(h, (uint64_t)(uint32_t)cur_ret[t]);
	}
	if (pr) {
		vs_hash_mix(h, (uint64_t)pr->backlog | (uint64_t)pr->io_seq_num << 16 | (uint64_t)pr->io_deq_seq_num << 32 | (uint64_t)pr->blk_index << 48);
		vs_hash_mix(h, (uint64_t)pr->blk_flags | (uint64_t)pr->begin_called << 32 | (uint64_t)(uint32_t)pr->fblk_lookup_error << 33);
		vs_hash_mix(h, pr->stats.input_bytes_read);
		vs_hash_mix(h, hash_block(pr->frag_block));
		vs_hash_mix(h, hash_block(pr->blk_current));
		vs_hash_mix(h, hash_block(pr->cached_frag_blk));
		hash_blist(h, pr->free_list, 4, 0);
		hash_blist(h, pr->io_queue, 5, 1);
		hash_blist(h, pr->fblk_in_flight, 6, 1);
		if (pr->frag_ht) vs_hash_mix(h, pr->frag_ht->entries);
	}
	if (g_mem) {
		vs_hash_mix(h, hash_bytes(g_mem->data, g_mem->size));
		vs_hash_mix(h, (uint64_t)g_mem->size | (uint64_t)g_mem->nwrites << 32 | (uint64_t)g_mem->ntruncs << 48);
	}
	if (g_frag) {
		size_t nf = sqfs_frag_table_get_size(g_frag);
		for (size_t k = 0; k < nf; ++k) {
			sqfs_fragment_t fr;
			sqfs_frag_table_lookup(g_frag, (sqfs_u32)k, &fr);
			vs_hash_mix(h, fr.start_offset ^ ((uint64_t)fr.size << 40));
		}
	}
	for (int i = 0; i < nfiles; ++i) {
		sqfs_inode_generic_t *n = g_inodes[i];
		if (n == NULL) { vs_hash_mix(h, 3); continue; }
		vs_hash_mix(h, hash_bytes(&n->data, sizeof(n->data)));
		vs_hash_mix(h, (uint64_t)n->base.type | (uint64_t)n->payload_bytes_used << 16);
		vs_hash_mix(h, hash_bytes(n->extra, n->payload_bytes_used));
	}
}
#endif

int harness_main(int argc, char **argv);
int harness_main(int argc, char **argv)
{
	static snap_t ref, got;
	if (argc < 4) { fprintf(stderr, "args: workers backlog scenario [expect-fail]\n"); _Exit(2); }
	int workers = atoi(argv[1]), backlog = atoi(argv[2]);
	int failing = strchr(argv[3], '!') != NULL;
	parse_scenario(argv[3]);

	serial_mode = 1;
	int rref = run_scenario(1, backlog, &ref);
	if (!failing && rref == 0) {
		/* the result must not depend on how far dequeuing lags behind submitting */
		static snap_t alt;
		static const int others[2] = { 1, 1000 };
		for (int k = 0; k < 2; ++k) {
			if (others[k] == backlog) continue;
			int ralt = run_scenario(1, others[k], &alt);
			if (ralt != 0)
				vs_fail(VS_ORACLE, "serial run with backlog %d failed with %d, with backlog %d it succeeded", others[k], ralt, backlog);
			if (alt.out_size != ref.out_size || memcmp(alt.out, ref.out, ref.out_size) != 0 || strcmp(alt.desc, ref.desc) != 0)
				vs_fail(VS_ORACLE, "serial pool: result with backlog %d differs from the result with backlog %d (sizes %zu vs %zu)\n %s\n %s",
					others[k], backlog, alt.out_size, ref.out_size, alt.desc, ref.desc);
		}
	}
	serial_mode = 0;
	memset(cur_block, 0, sizeof(cur_block));
	memset(cur_ret, 0, sizeof(cur_ret));
	vs_set_hash_cb(
#ifndef VS_FREE_RUNNING
		state_cb
#else
		NULL
#endif
	);
	int rgot = run_scenario(workers, backlog, &got);

	if (failing) {
		/* every API call returned (no deadlock); either an error surfaced or the output is what the serial pool produced */
		vs_result("fail-scenario ref=%d got=%d", rref, rgot);
		return 0;
	}
	if (rref != 0)
		vs_fail(VS_ORACLE, "serial reference run failed with %d", rref);
	if (rgot != 0)
		vs_fail(VS_ORACLE, "threaded run returned %d, serial reference succeeded", rgot);
	if (got.out_size != ref.out_size || memcmp(got.out, ref.out, ref.out_size) != 0) {
		size_t i = 0;
		while (i < ref.out_size && i < got.out_size && got.out[i] == ref.out[i]) ++i;
		vs_fail(VS_ORACLE, "output bytes differ from the serial reference: sizes %zu vs %zu, first difference at offset %zu", got.out_size, ref.out_size, i);
	}
	if (strcmp(got.desc, ref.desc) != 0)
		vs_fail(VS_ORACLE, "inodes/fragment table differ from the serial reference:\n threaded %s\n serial   %s", got.desc, ref.desc);
	vs_result("size=%zu writes=%d %s", got.out_size, got.nwrites, got.desc);
	return 0;
}

#ifdef VS_FREE_RUNNING
int main(int argc, char **argv) { return harness_main(argc, argv); }
#endif
