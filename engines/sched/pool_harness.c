/* C09 harness: the repository's threadpool.c, unmodified, #included so that the
 * private pool state is visible to the state hash and the oracles.
 * Compiled with -include vs_shim.h (controlled) or -DVS_FREE_RUNNING (TSan pass).
 *
 * args: <workers> <items> <fail_pos|-1> <shape> [fail_status]
 * shapes: 0 submit-all, dequeue-all          1 backlog-1 interleaving
 *         2 backlog-2 interleaving           3 like 0 with get_status polled between calls
 *         4 submit-all then destroy          5 submit-all, dequeue one, destroy
 *         6 submit half, dequeue all, submit rest, dequeue all (recycling / safe_done path)
 *         7 pool creation with pthread_create failing for worker <fail_pos>: must return NULL, never hang
 */
#include "lib/util/src/threadpool.c"

#include <stdio.h>
#include <stdarg.h>

#ifdef VS_FREE_RUNNING
#include <sched.h>
static char vs_resbuf[512];
static void vs_yield(int pc) { (void)pc; sched_yield(); }
static void vs_fail(int o, const char *fmt, ...) { va_list ap; va_start(ap, fmt); vfprintf(stderr, fmt, ap); va_end(ap); fprintf(stderr, "\n"); _Exit(o); }
static void vs_result(const char *fmt, ...) { (void)fmt; }
static void vs_set_hash_cb(void *cb) { (void)cb; }
#define VS_ORACLE 4
#endif

#define MAXI 8
#define MAXW 4

typedef struct { int id; int fail_status; } item_t;
typedef struct { volatile int busy; int idx; int last_item; int last_ret; int calls; } ctx_t;

static item_t items[MAXI];
static int processed[MAXI];
static int processed_by[MAXI];
static ctx_t ctx[MAXW];
static thread_pool_impl_t *g_pool;
static int W, N, F, SHAPE, FSTATUS = 42;

/* driver-visible history (part of the state) */
static int drv_pc, n_submitted, n_dequeued, deq_seq[MAXI + 1], sub_ret[MAXI], stat_seen[32], n_stat;

static int worker_cb(void *user, void *work)
{
	ctx_t *c = user;
	item_t *it = work;

	if (c == NULL)
		vs_fail(VS_ORACLE, "callback invoked with NULL per-worker context for item %d", it->id);
	if (c->busy)
		vs_fail(VS_ORACLE, "per-worker context %d used by two callbacks at once (item %d)", c->idx, it->id);
	c->busy = 1;
	c->last_item = it->id;
	c->calls++;
	vs_yield(9000 + it->id);          /* let other callbacks overlap with this one */
	processed[it->id]++;
	processed_by[it->id] = c->idx;
	if (processed[it->id] > 1)
		vs_fail(VS_ORACLE, "item %d processed %d times", it->id, processed[it->id]);
	c->busy = 0;
	c->last_ret = it->fail_status;
	return it->fail_status;
}

#ifndef VS_FREE_RUNNING
static void hash_list(uint64_t *h, work_item_t *l, int tag)
{
	vs_hash_mix(h, (uint64_t)tag << 32);
	for (int guard = 0; l != NULL && guard < 64; l = l->next, ++guard)
		vs_hash_mix(h, (uint64_t)l->ticket_number << 8 | (l->data ? (uint64_t)((item_t *)l->data)->id + 1 : 0));
}

static void state_cb(uint64_t *h)
{
	thread_pool_impl_t *p = g_pool;
	if (p != NULL) {
		vs_hash_mix(h, p->next_ticket | (uint64_t)p->next_dequeue_ticket << 16 | (uint64_t)p->item_count << 32 |
			       (uint64_t)(uint32_t)p->status << 40);
		hash_list(h, p->queue, 1);
		hash_list(h, p->done, 2);
		hash_list(h, p->safe_done, 3);
		/* recycle list: only its length matters (entries are zeroed) */
		int rl = 0;
		for (work_item_t *l = p->recycle; l && rl < 64; l = l->next) rl++;
		vs_hash_mix(h, 0x400000000ULL | (uint64_t)rl);
		for (size_t i = 0; i < p->num_workers; ++i)
			vs_hash_mix(h, 0x500000000ULL | (p->workers[i].user ? (uint64_t)(((ctx_t *)p->workers[i].user)->idx + 1) : 0));
		vs_hash_mix(h, (p->queue_last ? p->queue_last->ticket_number + 1 : 0) |
			       (uint64_t)(p->safe_done_last ? p->safe_done_last->ticket_number + 1 : 0) << 16);
	}
	for (int i = 0; i < W; ++i)
		vs_hash_mix(h, (uint64_t)ctx[i].busy | (uint64_t)(ctx[i].last_item + 1) << 8 | (uint64_t)(uint32_t)ctx[i].last_ret << 16 |
			       (uint64_t)ctx[i].calls << 48);
	for (int i = 0; i < N; ++i)
		vs_hash_mix(h, (uint64_t)processed[i] | (uint64_t)(processed_by[i] + 1) << 8);
	vs_hash_mix(h, (uint64_t)drv_pc | (uint64_t)n_submitted << 8 | (uint64_t)n_dequeued << 16 | (uint64_t)n_stat << 24);
	for (int i = 0; i < n_dequeued; ++i) vs_hash_mix(h, (uint64_t)deq_seq[i] + 77);
	for (int i = 0; i < n_submitted; ++i) vs_hash_mix(h, (uint64_t)(uint32_t)sub_ret[i] + 99);
	for (int i = 0; i < n_stat; ++i) vs_hash_mix(h, (uint64_t)(uint32_t)stat_seen[i] + 55);
}
#endif

static int failure_seen;       /* the driver has observed the failing status through the API */

static int do_submit(thread_pool_t *p, int i)
{
	drv_pc = 100 + i;
	vs_yield(8100 + i);      /* API call boundary: the driver can be preempted between two calls */
	int r = p->submit(p, &items[i]);
	sub_ret[n_submitted++] = r;
	if (r != 0) {
		if (F < 0)
			vs_fail(VS_ORACLE, "submit(%d) failed with %d although no item fails", i, r);
		if (r != FSTATUS)
			vs_fail(VS_ORACLE, "submit(%d) returned %d, expected the failing status %d", i, r, FSTATUS);
		failure_seen = 1;
	} else if (failure_seen) {
		vs_fail(VS_ORACLE, "submit(%d) succeeded after the failure status had been reported", i);
	}
	return r;
}

static int do_dequeue(thread_pool_t *p)
{
	drv_pc = 200 + n_dequeued;
	vs_yield(8200 + n_dequeued);
	item_t *it = p->dequeue(p);
	if (it == NULL)
		return -1;
	if (processed[it->id] != 1)
		vs_fail(VS_ORACLE, "dequeued item %d was processed %d times", it->id, processed[it->id]);
	if (it->id != n_dequeued)
		vs_fail(VS_ORACLE, "dequeue returned item %d, expected %d (submission order)", it->id, n_dequeued);
	deq_seq[n_dequeued++] = it->id;
	return it->id;
}

static int do_status(thread_pool_t *p)
{
	drv_pc = 300 + n_stat;
	vs_yield(8300 + n_stat);
	int s = p->get_status(p);
	if (n_stat < 32) stat_seen[n_stat++] = s;
	if (s != 0) {
		if (F < 0 || s != FSTATUS)
			vs_fail(VS_ORACLE, "get_status returned %d (failing item %d, expected status %d)", s, F, F < 0 ? 0 : FSTATUS);
		failure_seen = 1;
	} else if (failure_seen) {
		vs_fail(VS_ORACLE, "get_status returned 0 after the failure had been reported");
	}
	return s;
}

/* dequeue until the pool says there is nothing more (NULL) */
static void drain(thread_pool_t *p, int poll)
{
	for (;;) {
		if (poll) do_status(p);
		if (do_dequeue(p) < 0)
			break;
	}
}

int harness_main(int argc, char **argv);
int harness_main(int argc, char **argv)
{
	if (argc < 5) { fprintf(stderr, "args: workers items failpos shape\n"); _Exit(2); }
	W = atoi(argv[1]); N = atoi(argv[2]); F = atoi(argv[3]); SHAPE = atoi(argv[4]);
	if (argc > 5) FSTATUS = atoi(argv[5]);
	if (W > MAXW || N > MAXI) _Exit(2);
	for (int i = 0; i < N; ++i) { items[i].id = i; items[i].fail_status = (i == F) ? FSTATUS : 0; processed_by[i] = -1; }
	for (int i = 0; i < W; ++i) { ctx[i].idx = i; ctx[i].last_item = -1; }
	vs_set_hash_cb(
#ifndef VS_FREE_RUNNING
		state_cb
#else
		NULL
#endif
	);

#ifndef VS_FREE_RUNNING
	if (SHAPE == 7) {
		/* creation failure: pthread_create for worker F (0-based) fails; the call must return NULL under every interleaving with the workers already started */
		vs_fail_create_at = F + 1;
		thread_pool_t *q = thread_pool_create((size_t)W, worker_cb);
		if (q != NULL) vs_fail(VS_ORACLE, "thread_pool_create succeeded although creating worker %d failed", F);
		vs_result("create-failed-cleanly");
		return 0;
	}
#endif
	thread_pool_t *p = thread_pool_create((size_t)W, worker_cb);
	if (p == NULL) vs_fail(VS_ORACLE, "thread_pool_create failed");
	g_pool = (thread_pool_impl_t *)p;
	if ((int)p->get_worker_count(p) != W) vs_fail(VS_ORACLE, "worker count");
	for (int i = 0; i < W; ++i)
		p->set_worker_ptr(p, (size_t)i, &ctx[i]);

	int stopped = 0;
	switch (SHAPE) {
	case 0: case 3: case 4: case 5:
		for (int i = 0; i < N && !stopped; ++i) {
			if (SHAPE == 3) do_status(p);
			if (do_submit(p, i) != 0) stopped = 1;
		}
		if (SHAPE == 4) break;
		if (SHAPE == 5) { if (n_submitted > 0 && sub_ret[0] == 0) do_dequeue(p); break; }
		drain(p, SHAPE == 3);
		break;
	case 1: case 2: {
		int backlog = SHAPE, outstanding = 0;
		for (int i = 0; i < N && !stopped; ++i) {
			if (do_submit(p, i) != 0) { stopped = 1; break; }
			outstanding++;
			if (outstanding > backlog) {
				if (do_dequeue(p) < 0) { stopped = 1; break; }
				outstanding--;
			}
		}
		drain(p, 0);
		break; }
	case 6: {
		int half = (N + 1) / 2;
		for (int i = 0; i < half && !stopped; ++i)
			if (do_submit(p, i) != 0) stopped = 1;
		drain(p, 0);
		for (int i = half; i < N && !stopped; ++i)
			if (do_submit(p, i) != 0) stopped = 1;
		drain(p, 0);
		break; }
	default:
		_Exit(2);
	}

	if (SHAPE != 4 && SHAPE != 5) {
		int s = do_status(p);
		if (F < 0) {
			if (n_dequeued != N)
				vs_fail(VS_ORACLE, "only %d of %d items were handed back", n_dequeued, N);
			if (s != 0) vs_fail(VS_ORACLE, "status %d without failure", s);
		} else {
			/* the failing item was submitted iff no earlier submit refused */
			if (n_submitted > F && sub_ret[F] == 0 && s != FSTATUS)
				vs_fail(VS_ORACLE, "item %d failed with %d but get_status reports %d", F, FSTATUS, s);
			if (s != 0) {
				/* a later submit must be refused with the failure status */
				static item_t extra = { MAXI - 1, 0 };
				drv_pc = 400;
				int r = p->submit(p, &extra);
				if (r != FSTATUS)
					vs_fail(VS_ORACLE, "submit after failure returned %d, expected %d", r, FSTATUS);
			} else if (n_dequeued != N) {
				vs_fail(VS_ORACLE, "no failure reported but only %d of %d items handed back", n_dequeued, N);
			}
		}
	}
	drv_pc = 500;
	vs_yield(8500);
	p->destroy(p);
	g_pool = NULL;
	drv_pc = 501;

	for (int i = 0; i < N; ++i)
		if (processed[i] > 1)
			vs_fail(VS_ORACLE, "item %d processed %d times", i, processed[i]);

	vs_result("deq=");
	for (int i = 0; i < n_dequeued; ++i) vs_result("%d", deq_seq[i]);
	vs_result(" sub=");
	for (int i = 0; i < n_submitted; ++i) vs_result("%d,", sub_ret[i]);
	vs_result(" st=");
	for (int i = 0; i < n_stat; ++i) vs_result("%d,", stat_seen[i]);
	vs_result(" by=");
	for (int i = 0; i < N; ++i) vs_result("%d", processed_by[i] + 1);
	return 0;
}

#ifdef VS_FREE_RUNNING
int main(int argc, char **argv) { (void)vs_resbuf; return harness_main(argc, argv); }
#endif
