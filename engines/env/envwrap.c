/* ENV — environment controller linked into the tools with -Wl,--wrap=<sym>.
 * Default answer = what the kernel/libc does. A plan (VERIF_ENV_PLAN) deviates at chosen call indices.
 *
 * plan directives, separated by ';'
 *   short:<class>#<k>=<n>   k-th call of class transfers at most n bytes (for real) and returns that
 *   eintr:<class>#<k>       k-th call returns -1/EINTR once, no side effect
 *   fail:<class>#<k>=<e>    k-th call returns -1 (NULL / MAP_FAILED) with errno e, no side effect
 *   failall:<class>#<k>=<e> every call from the k-th on fails
 *   kill:out#<k>            _exit(137) immediately before the k-th write-like call on the output file
 *   cap:<class>=<n>         every call of class transfers at most n bytes
 *   time:<t>                time(), clock_gettime() and gettimeofday() answer t
 *   perm:<dirname>=<code>   readdir on directories with that base name returns the sorted entries
 *                           permuted by the factorial-number-system code (0 = sorted); perm:*=<code> for all
 *   permd:<dirname>=<code>  the same, but "." and ".." take part in the permutation (they are not kept in front)
 * classes: read pread write pwrite open close dup lseek trunc fsync unlink alloc mmap stat mk out
 * log (fd VERIF_ENV_LOGFD): "<class> <k> <fd> <requested> <returned> <errno> [OUT]" per call
 */
#define _GNU_SOURCE
#include <dirent.h>
#include <errno.h>
#include <fcntl.h>
#include <stdarg.h>
#include <stdio.h>
#include <stdlib.h>
#include <string.h>
#include <sys/mman.h>
#include <sys/stat.h>
#include <sys/types.h>
#include <unistd.h>

enum { C_READ, C_PREAD, C_WRITE, C_PWRITE, C_OPEN, C_CLOSE, C_DUP, C_LSEEK, C_TRUNC, C_FSYNC, C_UNLINK,
       C_ALLOC, C_MMAP, C_STAT, C_MK, C_OUT, C_NCLASS };
static const char *cname[] = {"read", "pread", "write", "pwrite", "open", "close", "dup", "lseek", "trunc", "fsync",
			      "unlink", "alloc", "mmap", "stat", "mk", "out"};

enum { D_SHORT = 1, D_EINTR, D_FAIL, D_FAILALL, D_KILL };
typedef struct { int kind, cls; long k; long arg; } dev_t_;
static dev_t_ devs[64];
static int ndevs;
static long cap[C_NCLASS];
static long counter[C_NCLASS];
static int logfd = -1;
static int inited;
static char outpath[4096];
static unsigned char is_out[4096];
static struct { char name[256]; long code; int dots; } perms[32];
static int nperms;

ssize_t __real_read(int, void *, size_t);
ssize_t __real_write(int, const void *, size_t);
ssize_t __real_pread(int, void *, size_t, off_t);
ssize_t __real_pwrite(int, const void *, size_t, off_t);
int __real_open(const char *, int, ...);
int __real_openat(int, const char *, int, ...);
int __real_close(int);
int __real_dup(int);
off_t __real_lseek(int, off_t, int);
int __real_ftruncate(int, off_t);
int __real_fsync(int);
int __real_unlink(const char *);
void *__real_malloc(size_t);
void *__real_calloc(size_t, size_t);
void *__real_realloc(void *, size_t);
char *__real_strdup(const char *);
char *__real_strndup(const char *, size_t);
void *__real_mmap(void *, size_t, int, int, int, off_t);
struct dirent *__real_readdir(DIR *);
int __real_closedir(DIR *);

void __sanitizer_print_stack_trace(void) __attribute__((weak));
static int trace_on;
static void trace_point(const char *what, long k)
{
	if (!trace_on)
		return;
	fprintf(stderr, "[envwrap] deviation at %s #%ld\n", what, k);
	if (__sanitizer_print_stack_trace)
		__sanitizer_print_stack_trace();
	fprintf(stderr, "[envwrap] end of trace\n");
}

static long fake_time = -1;
static int cls_by_name(const char *s, size_t n)
{
	for (int i = 0; i < C_NCLASS; ++i)
		if (strlen(cname[i]) == n && !strncmp(cname[i], s, n))
			return i;
	return -1;
}

static void init(void)
{
	if (inited)
		return;
	inited = 1;
	for (int i = 0; i < C_NCLASS; ++i) cap[i] = -1;
	trace_on = getenv("VERIF_ENV_TRACE") != NULL;
	const char *l = getenv("VERIF_ENV_LOGFD");
	if (l) logfd = atoi(l);
	const char *o = getenv("VERIF_OUT_PATH");
	if (o) snprintf(outpath, sizeof(outpath), "%s", o);
	const char *p = getenv("VERIF_ENV_PLAN");
	while (p && *p) {
		const char *e = strchr(p, ';');
		size_t len = e ? (size_t)(e - p) : strlen(p);
		char buf[512];
		if (len < sizeof(buf)) {
			memcpy(buf, p, len); buf[len] = 0;
			char *colon = strchr(buf, ':');
			if (colon) {
				*colon = 0;
				char *rest = colon + 1;
				if (!strcmp(buf, "perm") || !strcmp(buf, "permd")) {
					char *eq = strrchr(rest, '=');
					if (eq && nperms < 32) {
						*eq = 0;
						snprintf(perms[nperms].name, sizeof(perms[nperms].name), "%s", rest);
						perms[nperms].code = atol(eq + 1);
						perms[nperms].dots = !strcmp(buf, "permd");
						nperms++;
					}
				} else if (!strcmp(buf, "time")) {
					fake_time = atol(rest);
				} else if (!strcmp(buf, "cap")) {
					char *eq = strchr(rest, '=');
					if (eq) { int c = cls_by_name(rest, (size_t)(eq - rest)); if (c >= 0) cap[c] = atol(eq + 1); }
				} else {
					int kind = !strcmp(buf, "short") ? D_SHORT : !strcmp(buf, "eintr") ? D_EINTR :
						   !strcmp(buf, "fail") ? D_FAIL : !strcmp(buf, "failall") ? D_FAILALL :
						   !strcmp(buf, "null") ? D_FAIL : !strcmp(buf, "kill") ? D_KILL : 0;
					char *hash = strchr(rest, '#');
					if (kind && hash && ndevs < 64) {
						int c = cls_by_name(rest, (size_t)(hash - rest));
						char *eq = strchr(hash, '=');
						if (c >= 0) {
							devs[ndevs].kind = kind; devs[ndevs].cls = c;
							devs[ndevs].k = atol(hash + 1);
							devs[ndevs].arg = eq ? atol(eq + 1) : (kind == D_FAIL ? ENOMEM : 0);
							ndevs++;
						}
					}
				}
			}
		}
		p = e ? e + 1 : NULL;
	}
}

static void logcall(int cls, long k, int fd, long req, long ret, int err, int out)
{
	if (logfd < 0)
		return;
	char b[160];
	int n = snprintf(b, sizeof(b), "%s %ld %d %ld %ld %d%s\n", cname[cls], k, fd, req, ret, err, out ? " OUT" : "");
	__real_write(logfd, b, (size_t)n);
}

/* returns deviation for the k-th call of cls (k is 1-based), or NULL */
static dev_t_ *find_dev(int cls, long k)
{
	for (int i = 0; i < ndevs; ++i) {
		if (devs[i].cls != cls)
			continue;
		if (devs[i].k == k || (devs[i].kind == D_FAILALL && k >= devs[i].k)) {
			trace_point(cname[cls], k);
			return &devs[i];
		}
	}
	return NULL;
}

static long next_k(int cls)
{
	return __atomic_add_fetch(&counter[cls], 1, __ATOMIC_SEQ_CST);
}

static int fd_is_out(int fd)
{
	return fd >= 0 && fd < (int)sizeof(is_out) && is_out[fd];
}

static void out_point(int fd)
{
	if (!fd_is_out(fd))
		return;
	long k = next_k(C_OUT);
	dev_t_ *d = find_dev(C_OUT, k);
	if (d && d->kind == D_KILL) {
		logcall(C_OUT, k, fd, 0, -137, 0, 1);
		_exit(137);
	}
}

/* common handling of transfer calls; returns 1 if the call is answered here (ret/errno set) */
static int pre_transfer(int cls, int fd, size_t *count, long *k, ssize_t *ret)
{
	init();
	*k = next_k(cls);
	dev_t_ *d = find_dev(cls, *k);
	if (cap[cls] >= 0 && *count > (size_t)cap[cls])
		*count = (size_t)cap[cls] ? (size_t)cap[cls] : 1;
	if (d) {
		if (d->kind == D_EINTR) { errno = EINTR; *ret = -1; logcall(cls, *k, fd, (long)*count, -1, EINTR, fd_is_out(fd)); return 1; }
		if (d->kind == D_FAIL || d->kind == D_FAILALL) { errno = (int)d->arg; *ret = -1; logcall(cls, *k, fd, (long)*count, -1, errno, fd_is_out(fd)); return 1; }
		if (d->kind == D_SHORT && *count > (size_t)d->arg) *count = d->arg > 0 ? (size_t)d->arg : 1;
	}
	return 0;
}

ssize_t __wrap_read(int fd, void *buf, size_t count)
{
	long k; ssize_t r; size_t req = count;
	if (pre_transfer(C_READ, fd, &count, &k, &r)) return r;
	r = __real_read(fd, buf, count);
	int e = errno; logcall(C_READ, k, fd, (long)req, (long)r, r < 0 ? e : 0, 0); errno = e;
	return r;
}

ssize_t __wrap_pread(int fd, void *buf, size_t count, off_t off)
{
	long k; ssize_t r; size_t req = count;
	if (pre_transfer(C_PREAD, fd, &count, &k, &r)) return r;
	r = __real_pread(fd, buf, count, off);
	int e = errno; logcall(C_PREAD, k, fd, (long)req, (long)r, r < 0 ? e : 0, fd_is_out(fd)); errno = e;
	return r;
}

ssize_t __wrap_write(int fd, const void *buf, size_t count)
{
	long k; ssize_t r; size_t req = count;
	init();
	out_point(fd);
	if (pre_transfer(C_WRITE, fd, &count, &k, &r)) return r;
	r = __real_write(fd, buf, count);
	int e = errno; logcall(C_WRITE, k, fd, (long)req, (long)r, r < 0 ? e : 0, fd_is_out(fd)); errno = e;
	return r;
}

ssize_t __wrap_pwrite(int fd, const void *buf, size_t count, off_t off)
{
	long k; ssize_t r; size_t req = count;
	init();
	out_point(fd);
	if (pre_transfer(C_PWRITE, fd, &count, &k, &r)) return r;
	r = __real_pwrite(fd, buf, count, off);
	int e = errno; logcall(C_PWRITE, k, fd, (long)req, (long)r, r < 0 ? e : 0, fd_is_out(fd)); errno = e;
	return r;
}

static int simple_fail(int cls, int fd, long *k)
{
	init();
	*k = next_k(cls);
	dev_t_ *d = find_dev(cls, *k);
	if (d && (d->kind == D_FAIL || d->kind == D_FAILALL || d->kind == D_EINTR)) {
		errno = d->kind == D_EINTR ? EINTR : (int)d->arg;
		logcall(cls, *k, fd, 0, -1, errno, fd_is_out(fd));
		return 1;
	}
	return 0;
}

static void mark_out(const char *path, int fd)
{
	if (fd < 0 || fd >= (int)sizeof(is_out))
		return;
	is_out[fd] = 0;
	if (!outpath[0] || !path)
		return;
	size_t lp = strlen(path), lo = strlen(outpath);
	if (!strcmp(path, outpath) || (lp < lo && !strcmp(outpath + lo - lp, path) && outpath[lo - lp - 1] == '/'))
		is_out[fd] = 1;
}

int __wrap_open(const char *path, int flags, ...)
{
	long k; mode_t mode = 0;
	if (flags & (O_CREAT | O_TMPFILE)) { va_list ap; va_start(ap, flags); mode = va_arg(ap, mode_t); va_end(ap); }
	if (simple_fail(C_OPEN, -1, &k)) return -1;
	int fd = __real_open(path, flags, mode);
	int e = errno;
	mark_out(path, fd);
	logcall(C_OPEN, k, fd, flags, fd, fd < 0 ? e : 0, fd_is_out(fd));
	errno = e;
	return fd;
}

int __wrap_openat(int dirfd, const char *path, int flags, ...)
{
	long k; mode_t mode = 0;
	if (flags & (O_CREAT | O_TMPFILE)) { va_list ap; va_start(ap, flags); mode = va_arg(ap, mode_t); va_end(ap); }
	if (simple_fail(C_OPEN, -1, &k)) return -1;
	int fd = __real_openat(dirfd, path, flags, mode);
	int e = errno;
	mark_out(path, fd);
	logcall(C_OPEN, k, fd, flags, fd, fd < 0 ? e : 0, fd_is_out(fd));
	errno = e;
	return fd;
}

int __wrap_close(int fd)
{
	long k;
	if (simple_fail(C_CLOSE, fd, &k)) return -1;
	int out = fd_is_out(fd);
	int r = __real_close(fd);
	int e = errno;
	if (fd >= 0 && fd < (int)sizeof(is_out)) is_out[fd] = 0;
	logcall(C_CLOSE, k, fd, 0, r, r < 0 ? e : 0, out);
	errno = e;
	return r;
}

int __wrap_dup(int fd)
{
	long k;
	if (simple_fail(C_DUP, fd, &k)) return -1;
	int r = __real_dup(fd);
	int e = errno;
	if (r >= 0 && r < (int)sizeof(is_out)) is_out[r] = fd_is_out(fd);
	logcall(C_DUP, k, fd, 0, r, r < 0 ? e : 0, fd_is_out(fd));
	errno = e;
	return r;
}

off_t __wrap_lseek(int fd, off_t off, int whence)
{
	long k;
	if (simple_fail(C_LSEEK, fd, &k)) return (off_t)-1;
	off_t r = __real_lseek(fd, off, whence);
	int e = errno; logcall(C_LSEEK, k, fd, (long)off, (long)r, r < 0 ? e : 0, fd_is_out(fd)); errno = e;
	return r;
}

int __wrap_ftruncate(int fd, off_t len)
{
	long k;
	init();
	out_point(fd);
	if (simple_fail(C_TRUNC, fd, &k)) return -1;
	int r = __real_ftruncate(fd, len);
	int e = errno; logcall(C_TRUNC, k, fd, (long)len, r, r < 0 ? e : 0, fd_is_out(fd)); errno = e;
	return r;
}

int __wrap_fsync(int fd)
{
	long k;
	if (simple_fail(C_FSYNC, fd, &k)) return -1;
	int r = __real_fsync(fd);
	int e = errno; logcall(C_FSYNC, k, fd, 0, r, r < 0 ? e : 0, fd_is_out(fd)); errno = e;
	return r;
}

int __wrap_unlink(const char *path)
{
	long k;
	if (simple_fail(C_UNLINK, -1, &k)) return -1;
	int r = __real_unlink(path);
	int e = errno; logcall(C_UNLINK, k, -1, 0, r, r < 0 ? e : 0, 0); errno = e;
	return r;
}

static int alloc_fail(long *k)
{
	init();
	*k = next_k(C_ALLOC);
	dev_t_ *d = find_dev(C_ALLOC, *k);
	if (d && (d->kind == D_FAIL || d->kind == D_FAILALL)) {
		logcall(C_ALLOC, *k, -1, 0, 0, ENOMEM, 0);
		errno = ENOMEM;
		return 1;
	}
	return 0;
}

void *__wrap_malloc(size_t n) { long k; if (alloc_fail(&k)) return NULL; return __real_malloc(n); }
void *__wrap_calloc(size_t a, size_t b) { long k; if (alloc_fail(&k)) return NULL; return __real_calloc(a, b); }
void *__wrap_realloc(void *p, size_t n) { long k; if (alloc_fail(&k)) return NULL; return __real_realloc(p, n); }
char *__wrap_strdup(const char *s) { long k; if (alloc_fail(&k)) return NULL; return __real_strdup(s); }
char *__wrap_strndup(const char *s, size_t n) { long k; if (alloc_fail(&k)) return NULL; return __real_strndup(s, n); }

void *__wrap_mmap(void *addr, size_t len, int prot, int flags, int fd, off_t off)
{
	long k;
	init();
	k = next_k(C_MMAP);
	dev_t_ *d = find_dev(C_MMAP, k);
	if (d && (d->kind == D_FAIL || d->kind == D_FAILALL)) { errno = ENOMEM; logcall(C_MMAP, k, fd, (long)len, -1, ENOMEM, 0); return MAP_FAILED; }
	return __real_mmap(addr, len, prot, flags, fd, off);
}

/* ---------------------------------------------------------------- clock */
#include <time.h>
#include <sys/time.h>
time_t __real_time(time_t *);
int __real_clock_gettime(clockid_t, struct timespec *);
int __real_gettimeofday(struct timeval *, void *);

time_t __wrap_time(time_t *t)
{
	init();
	if (fake_time < 0) return __real_time(t);
	if (t) *t = (time_t)fake_time;
	return (time_t)fake_time;
}

int __wrap_clock_gettime(clockid_t c, struct timespec *ts)
{
	init();
	if (fake_time < 0) return __real_clock_gettime(c, ts);
	ts->tv_sec = (time_t)fake_time; ts->tv_nsec = 123456789;
	return 0;
}

int __wrap_gettimeofday(struct timeval *tv, void *tz)
{
	init();
	if (fake_time < 0) return __real_gettimeofday(tv, tz);
	tv->tv_sec = (time_t)fake_time; tv->tv_usec = 123456;
	return 0;
}

/* ---------------------------------------------------------------- readdir permutation */
typedef struct { DIR *d; struct dirent *ents; int n, pos; } snap_t;
static snap_t snaps[64];

static int cmp_ent(const void *a, const void *b)
{
	return strcmp(((const struct dirent *)a)->d_name, ((const struct dirent *)b)->d_name);
}

static int perm_dots;
static long perm_code_for(DIR *d)
{
	perm_dots = 0;
	char link[64], path[4096];
	snprintf(link, sizeof(link), "/proc/self/fd/%d", dirfd(d));
	ssize_t n = readlink(link, path, sizeof(path) - 1);
	const char *base = "";
	if (n > 0) { path[n] = 0; base = strrchr(path, '/'); base = base ? base + 1 : path; }
	for (int i = 0; i < nperms; ++i)
		if (!strcmp(perms[i].name, base)) {
			perm_dots = perms[i].dots;
			return perms[i].code;
		}
	for (int i = 0; i < nperms; ++i)
		if (!strcmp(perms[i].name, "*")) {
			perm_dots = perms[i].dots;
			return perms[i].code;
		}
	return -1;
}

struct dirent *__wrap_readdir(DIR *d)
{
	init();
	if (nperms == 0)
		return __real_readdir(d);
	snap_t *s = NULL;
	for (int i = 0; i < 64; ++i)
		if (snaps[i].d == d) { s = &snaps[i]; break; }
	if (s == NULL) {
		for (int i = 0; i < 64; ++i)
			if (snaps[i].d == NULL) { s = &snaps[i]; break; }
		if (s == NULL)
			return __real_readdir(d);
		long code = perm_code_for(d);
		int capn = 16, n = 0;
		struct dirent *arr = __real_malloc(sizeof(*arr) * (size_t)capn), *e;
		while ((e = __real_readdir(d)) != NULL) {
			if (n == capn) { capn *= 2; arr = __real_realloc(arr, sizeof(*arr) * (size_t)capn); }
			memcpy(&arr[n++], e, sizeof(*e));
		}
		/* "." and ".." first, rest sorted then permuted */
		int lo = 0;
		for (int i = 0; i < n && !perm_dots; ++i)
			if (!strcmp(arr[i].d_name, ".") || !strcmp(arr[i].d_name, "..")) {
				struct dirent t = arr[lo]; arr[lo] = arr[i]; arr[i] = t; lo++;
			}
		qsort(arr + lo, (size_t)(n - lo), sizeof(*arr), cmp_ent);
		if (code > 0) {
			int m = n - lo;
			struct dirent *tmp = __real_malloc(sizeof(*tmp) * (size_t)(m ? m : 1));
			int *avail = __real_malloc(sizeof(int) * (size_t)(m ? m : 1));
			for (int i = 0; i < m; ++i) avail[i] = i;
			/* factorial number system, most significant digit first */
			long fact = 1;
			for (int i = 2; i < m; ++i) fact *= i;       /* (m-1)! */
			long c = code;
			int left = m;
			for (int i = 0; i < m; ++i) {
				long digit = left > 1 ? (c / fact) % left : 0;
				if (left > 1) { c %= fact; fact /= (left - 1) > 0 ? (left - 1) : 1; }
				tmp[i] = arr[lo + avail[digit]];
				for (int j = (int)digit; j < left - 1; ++j) avail[j] = avail[j + 1];
				left--;
			}
			memcpy(arr + lo, tmp, sizeof(*tmp) * (size_t)m);
			free(tmp); free(avail);
		}
		s->d = d; s->ents = arr; s->n = n; s->pos = 0;
		if (logfd >= 0) {
			char b[128];
			int l = snprintf(b, sizeof(b), "readdir-snapshot %d entries code %ld\n", n, code);
			__real_write(logfd, b, (size_t)l);
		}
	}
	if (s->pos >= s->n)
		return NULL;
	return &s->ents[s->pos++];
}

int __wrap_closedir(DIR *d)
{
	for (int i = 0; i < 64; ++i)
		if (snaps[i].d == d) { free(snaps[i].ents); memset(&snaps[i], 0, sizeof(snaps[i])); }
	return __real_closedir(d);
}
