#!/usr/bin/env python3
"""C15 — transparent stream compression: archives x codecs x levels x member splits (every 512-byte boundary +-1, every offset for the
small archive) x trailing variants x pipe chunkings through tar2sqfs must give the image of the plain archive; sqfs2tar -c X must expand
(reference decoder) to the plain output; every prefix and single-byte corruption of a compressed archive is an error or the same image."""
import os, sys, json, shutil, tempfile, subprocess, hashlib
sys.path.insert(0, os.path.dirname(os.path.dirname(os.path.abspath(__file__))))
from vlib.common import *
from vlib import build, tarmk, tarcases, codecs, treegen

SCR = None
T = {}
REF = {}       # archive name -> (plain bytes, image sha for each block size)


def archives(tier):
    E = tarcases.E
    a1 = tarmk.archive([E(b"d", "dir"), E(b"d/f", "file", content=b"hello compressed world\n" * 20)], "ustar")
    ents = [E(b"m", "dir")] + [E(b"m/f%02d" % i, "file", content=treegen.content_pattern("f%d" % i, 1000 + 211 * i)) for i in range(14)] + \
           [E(b"m/z", "file", content=bytes(9000)), E(b"m/l", "slink", target=b"f00"), E(b"m/h", "link", target=b"m/f01")]
    a2 = tarmk.archive(ents, "gnu")
    # a4: many members of odd sizes, > 2 x 256 KiB in total: record padding (written as "append n zero bytes") falls behind the first and second buffer recycling
    a4 = tarmk.archive([E(b"o", "dir")] + [E(b"o/f%02d" % i, "file", content=treegen.content_pattern("o%d" % i, 40000 + 1111 * i + (i % 7))) for i in range(14)], "gnu")
    out = [("a1-small", a1), ("a2-40k", a2), ("a4-odd-sizes-700k", a4)]
    # a3: incompressible payload so that the compressed stream crosses 131072 (file istream buffer) and the plain one 262144 (xfrm buffer)
    deltas = (-1, 0, 1) if tier == "quick" else (-4, -3, -2, -1, 0, 1, 2, 3, 4)
    for mult in ((1,) if tier == "quick" else (1, 2)):
        for dl in deltas:
            total = mult * 262144 + dl * 512
            payload = total - 512 * 2 - 1024        # one header + end marker
            out.append(("a3-%dx256k%+d" % (mult, dl), tarmk.archive([E(b"big", "file", content=treegen.content_pattern("big%d" % dl, payload))], "ustar")))
    return out


def run_t2s(data, bs=4096, chunk=None):
    d = tempfile.mkdtemp(prefix="t", dir=SCR)
    try:
        img = os.path.join(d, "o.sqfs")
        argv = [T["tar2sqfs"], "-q", "-c", "gzip", "-b", str(bs), "-j", "2", img]
        if chunk is None:
            r = run_tool(argv, stdin=data, timeout=120)
            rc, err, crashed, to = r.rc, r.err, r.crashed, r.timeout
        else:
            p = subprocess.Popen(argv, stdin=subprocess.PIPE, stdout=subprocess.DEVNULL, stderr=subprocess.PIPE, env=dict(CLEAN_ENV))
            try:
                for i in range(0, len(data), chunk):
                    os.write(p.stdin.fileno(), data[i:i + chunk])
            except BrokenPipeError:
                pass
            p.stdin.close()
            err = p.stderr.read()
            rc = p.wait()
            crashed = rc < 0 or b"ERROR: AddressSanitizer" in err
            to = False
        return rc, (sha_file(img) if os.path.exists(img) else None), err[-1500:], crashed, to
    finally:
        shutil.rmtree(d, ignore_errors=True)


def materialise(aname, recipe):
    if isinstance(recipe, (bytes, bytearray)):
        return recipe
    data = REF[aname][0]
    tag = recipe[0]
    if tag == "whole":
        return codecs.compress(recipe[1], data, recipe[2]) + recipe[3]
    if tag == "split":
        codec, offs = recipe[1], recipe[2]
        out, prev = b"", 0
        for o in list(offs) + [len(data)]:
            out += codecs.compress(codec, data[prev:o])
            prev = o
        return out
    if tag == "plain":
        return data
    raise ValueError(tag)


def evaluate(case):
    kind, aname, what, recipe, bs, chunk, strict = case
    data = materialise(aname, recipe)
    rc, sh, err, crashed, to = run_t2s(data, bs, chunk)
    ref = REF[aname][1][bs]

    def viol(fp, msg):
        return dict(status="violation", fp=fp, what="archive %s, %s, -b %d%s\n%s" % (aname, what, bs, ", pipe chunks of %d" % chunk if chunk else "", msg), dsha=hashlib.sha256(data).hexdigest(),
                    files={"input.bin": data if len(data) < 3000000 else data[:3000000], "case.json": json.dumps(dict(archive=aname, what=what, bs=bs, chunk=chunk))})
    codec = what.split(" ")[0]
    if to:
        return viol("C15|hang|%s" % codec, "tar2sqfs does not terminate")
    if crashed:
        return viol("C15|crash|%s" % codec, err.decode("latin1")[-1500:])
    if strict:
        if rc != 0:
            return viol("C15|refused|%s|%s" % (codec, kind), "exit %d on a valid compressed archive: %s" % (rc, err.decode("latin1")[-300:]))
        if sh != ref:
            return viol("C15|different-image|%s|%s" % (codec, kind), "image differs from the image of the plain archive")
    else:
        if rc == 0 and sh != ref:
            return viol("C15|damaged-input-accepted|%s|%s" % (codec, kind), "exit 0 with an image that differs from the intact archive's (silently accepted as a different archive)")
    return dict(status="ok", rc=rc, dsha=hashlib.sha256(data).hexdigest())


def main():
    global SCR
    cr = CheckRun("C15", "exploration", default_budget=(420, 3000))
    with build.Scratch("C15") as sd:
        SCR = sd
        T.update(build.build_tools(build.variant("asan"), os.path.join(sd, "bin"), tools=["tar2sqfs", "sqfs2tar", "gensquashfs"]))
        quick = cr.quick
        if cr.replay:
            c = json.load(open(os.path.join(cr.replay, "case.json")))
            data = open(os.path.join(cr.replay, "input.bin"), "rb").read()
            print(run_t2s(data, c["bs"], c["chunk"]))
            return 1
        cods = ["gzip", "xz", "bzip2"] + (["zstd", "zstd-checksum"] if codecs.zstd_available() else [])
        if not codecs.zstd_available():
            cr.note("libzstd not loadable through ctypes: zstd streams not covered")
        arcs = archives(cr.tier)
        bss = (4096,) if quick else (4096, 131072, 1048576)
        # format detection: uncompressed archives (every dialect that carries a magic) whose first bytes - the first member's name - look like
        # a compressor magic; the plain archive and each wrapped form must give the same image
        n_probe = 0
        E = tarcases.E
        MAG = [b"BZh9-notes.txt", b"BZhello", b"\x1f\x8b\x08.dat", b"\xfd7zXZ", b"(\xb5/\xfdx.bin", b"\x5d\x00\x00.lzma", b"ustar"]
        for dialect in ("ustar", "gnu", "pax"):
            for mname in MAG:
                data = tarmk.archive([E(mname, "file", content=b"payload of the oddly named member\n" * 9), E(b"zz", "file", content=b"second")], dialect)
                rc0, sh0, err0, crashed0, _ = run_t2s(data, 4096)
                res = {}
                for codec in cods:
                    res[codec] = run_t2s(codecs.compress(codec, data), 4096)
                n_probe += 1 + len(cods)
                files = {"input.bin": data, "case.json": json.dumps(dict(archive="magic-name", what="%s first member %r" % (dialect, mname), bs=4096, chunk=None))}
                rs = "python3 /verif/checks/C15.py --replay \"$PWD\""
                if crashed0 or any(v[3] for v in res.values()):
                    cr.violation("C15|crash|magic-name", "%s archive, first member %r: tar2sqfs crashed" % (dialect, mname), files=files, replay_sh=rs)
                    continue
                good = {c: v for c, v in res.items() if v[0] == 0}
                if rc0 != 0 and good:
                    cr.violation("C15|plain-rejected-wrapped-accepted|%s" % dialect, "%s archive whose first member is named %r: rejected when it arrives uncompressed (%s) but accepted when wrapped in %s" % (
                        dialect, mname, err0.decode("latin1")[-200:].strip(), sorted(good)), files=files, replay_sh=rs)
                    continue
                bad = [c for c, v in res.items() if (v[0] == 0) != (rc0 == 0) or (v[0] == 0 and v[1] != sh0)]
                if bad:
                    cr.violation("C15|different-image|magic-name|%s" % dialect, "%s archive, first member %r: plain rc=%d, wrapped in %s gives another result" % (dialect, mname, rc0, bad), files=files, replay_sh=rs)
        cr.coverage["magic_name_runs"] = n_probe
        for name, data in arcs:
            shas = {}
            for bs in bss:
                rc, sh, err, crashed, to = run_t2s(data, bs)
                if rc != 0 or sh is None:
                    raise RuntimeError("plain archive %s is not accepted: %s" % (name, err[-300:]))
                shas[bs] = sh
            REF[name] = (data, shas)
        cases = []
        for name, data in arcs:
            small = name.startswith("a1")
            for codec in cods:
                for level in (("default",) if (quick and not small) else ("min", "default", "max")):
                    if codec.startswith("zstd") and level == "max" and len(data) > 100000:
                        continue
                    whole = ("whole", codec, level, b"")
                    for bs in bss:
                        cases.append(("single", name, "%s level=%s single stream" % (codec, level), whole, bs, None, True))
                    if level != "default":
                        continue
                    # member splits
                    if small:
                        offs = range(1, len(data), 1 if not quick else 37)
                    elif len(data) < 100000:
                        bound = [o + d for o in range(512, len(data), 512) for d in (-1, 0, 1)]
                        offs = bound if not quick else bound[::max(1, len(bound) // 12)]
                    else:
                        # large archives: every 512-byte boundary +-1 in windows around the 128 KiB / 256 KiB buffer sizes, and every 32nd boundary elsewhere
                        ks = set(range(1, len(data) // 512, 32))
                        for centre in (131072 // 512, 262144 // 512, len(data) // 512 - 1):
                            ks.update(k for k in range(centre - 3, centre + 4) if 0 < k < len(data) // 512 + 1)
                        bound = [512 * k + d for k in sorted(ks) for d in (-1, 0, 1) if 0 < 512 * k + d < len(data)]
                        offs = bound if not quick else bound[::max(1, len(bound) // 12)]
                        # a member that ends exactly where a 128 KiB / 256 KiB staging buffer fills (and one byte before / after): always
                        offs = sorted(set(offs) | set(o_ for o_ in (131071, 131072, 131073, 262143, 262144, 262145, 393216, 524288) if 0 < o_ < len(data)))
                    for o in offs:
                        cases.append(("split", name, "%s two members split at %d" % (codec, o), ("split", codec, (o,)), bss[0], None, True))
                    # empty members (a split at offset 0 / at the end / twice at the same offset): at the very start, on an entry boundary, inside a header
                    for offs3 in ((0,), (len(data),), (0, 0), (512, 512), (1024, 1024), (700, 700), (len(data) - 1024, len(data) - 1024), (0, 512, 512, len(data))):
                        if all(0 <= o <= len(data) for o in offs3):
                            cases.append(("split", name, "%s members split at %s (empty members)" % (codec, ",".join(map(str, offs3))), ("split", codec, offs3), bss[0], None, True))
                    # three members
                    cases.append(("split", name, "%s three members (700,1,rest)" % codec, ("split", codec, (700, 701)), bss[0], None, True))
                    # pipe chunkings
                    for ch in ((512, 65536) if quick else (1, 7, 512, 4095, 65536)):
                        if ch == 1 and len(data) > 30000:
                            continue
                        cases.append(("chunked", name, "%s single stream" % codec, whole, bss[0], ch, True))
                    # trailing variants: not promised by the statement => error or the same image
                    cases.append(("trailing", name, "%s + 1 KiB zeros" % codec, ("whole", codec, level, bytes(1024)), bss[0], None, False))
                    cases.append(("trailing", name, "%s + 7 KiB zeros" % codec, ("whole", codec, level, bytes(7168)), bss[0], None, False))
                    cases.append(("trailing", name, "%s + garbage" % codec, ("whole", codec, level, b"garbage!" * 8), bss[0], None, False))
            # the plain archive through the same pipe chunkings
            for ch in ((512,) if quick else (1, 7, 512, 65536)):
                if ch == 1 and len(data) > 30000:
                    continue
                cases.append(("chunked", name, "plain archive", ("plain",), bss[0], ch, True))
        # oracle C: every proper prefix and every single-byte corruption of the compressed small archive
        a1 = arcs[0][1]
        for codec in cods:
            z = codecs.compress(codec, a1)
            for ln in range(1, len(z), 3 if quick else 1):     # a 0-byte input is an empty archive, not a truncated one
                cases.append(("prefix", "a1-small", "%s truncated to %d of %d bytes" % (codec, ln, len(z)), z[:ln], bss[0], None, False))
            # the same for a two-member stream cut inside its SECOND member (member boundary on a tar entry boundary, so that what was
            # decoded so far is a well-formed shorter archive): every length in the first 64 bytes of the member, every 3rd after that
            for o in (512, 1536):
                z1, z2 = codecs.compress(codec, a1[:o]), codecs.compress(codec, a1[o:])
                for k in list(range(1, min(64, len(z2)))) + list(range(64, len(z2), 3 if quick else 1)):
                    cases.append(("prefix", "a1-small", "%s two members (split at %d), second member truncated to %d of %d bytes" % (codec, o, k, len(z2)),
                                  z1 + z2[:k], bss[0], None, False))
            if codec == "zstd":
                continue       # a zstd frame without content checksum cannot detect a flipped literal byte: corruption family only for codecs with an integrity check
            for off in range(0, len(z), 3 if quick else 1):
                for x in ((1,) if quick else (1, 0x80)):
                    d = bytearray(z)
                    d[off] ^= x
                    cases.append(("corrupt", "a1-small", "%s byte %d ^= %#x" % (codec, off, x), bytes(d), bss[0], None, False))
        cr.coverage["planned_cases"] = len(cases)
        n_eval = 0
        kinds = {}
        distinct = set()
        outcomes = {}
        chunk = 2000
        for off in range(0, len(cases), chunk):
            if cr.time_left() < 40:
                cr.cap("deadline after %d of %d" % (off, len(cases)))
                break
            for c, r in zip(cases[off:off + chunk], pmap(evaluate, cases[off:off + chunk])):
                n_eval += 1
                kinds[c[0]] = kinds.get(c[0], 0) + 1
                distinct.add(r.get("dsha"))
                if r["status"] == "violation":
                    cr.violation(r["fp"], r["what"], files=r["files"], replay_sh="python3 /verif/checks/C15.py --replay \"$PWD\"")
                elif not c[6]:
                    k = "%s: %s" % (c[0], "rejected" if r["rc"] != 0 else "accepted with identical image")
                    outcomes[k] = outcomes.get(k, 0) + 1
        # chunking at the system call level: every read() of the (compressed) input returns at most N bytes (environment controller); the first
        # read is then shorter than the compressor magic / the tar header the format detection looks at
        from vlib import envrun
        TE = build.build_tools(build.variant("envwrap"), os.path.join(sd, "envbin"), tools=["tar2sqfs"])
        n_cap = 0
        for name in ("a1-small", "a2-40k"):
            data0, shas0 = REF[name]
            for codec in [None] + cods:
                z = data0 if codec is None else codecs.compress(codec, data0)
                for capn in ((1, 2, 3, 5, 6, 511) if name == "a1-small" else (1, 5)):
                    d = tempfile.mkdtemp(dir=sd)
                    img = os.path.join(d, "o.sqfs")
                    zf = os.path.join(d, "in.bin")
                    open(zf, "wb").write(z)
                    r, _ = envrun.run_env([TE["tar2sqfs"], "-q", "-c", "gzip", "-b", str(bss[0]), "-j", "2", img], plan="cap:read=%d" % capn, stdin_file=zf, want_log=False, timeout=300)
                    n_cap += 1
                    n_eval += 1
                    sh = sha_file(img) if os.path.exists(img) else None
                    if r.crashed or r.rc != 0 or sh != shas0[bss[0]]:
                        cr.violation("C15|read-cap|%s|%s" % (codec or "plain", "crash" if r.crashed else ("refused" if r.rc != 0 else "different-image")),
                                     "archive %s, %s, every read() returns at most %d byte(s): rc=%d %s" % (name, codec or "uncompressed", capn, r.rc, r.err.decode("latin1")[-300:].strip()),
                                     files={"input.bin": z, "case.json": json.dumps(dict(archive=name, what="%s read cap %d" % (codec, capn), bs=bss[0], chunk=None))})
                    shutil.rmtree(d, ignore_errors=True)
        cr.coverage["read_cap_runs"] = n_cap
        # oracle B: sqfs2tar -c X expanded by the reference decoder == plain sqfs2tar output
        nb = 0
        imgs = []
        for name in ("a1-small", "a2-40k", "a4-odd-sizes-700k", arcs[-1][0]):
            d = tempfile.mkdtemp(dir=sd)
            img = os.path.join(d, "i.sqfs")
            run_tool([T["tar2sqfs"], "-q", "-c", "gzip", "-b", "4096", img], stdin=REF[name][0], timeout=120)
            imgs.append((name, img))
        for name, img in imgs:
            plain = run_tool([T["sqfs2tar"], img], timeout=120)
            if plain.rc != 0:
                raise RuntimeError("sqfs2tar fails on %s" % name)
            for x in ("gzip", "xz", "bzip2", "zstd"):
                r = run_tool([T["sqfs2tar"], "-c", x, img], timeout=300)
                nb += 1
                n_eval += 1
                if r.crashed or r.rc != 0:
                    cr.violation("C15|sqfs2tar-c-fails|%s" % x, "image of %s: sqfs2tar -c %s rc=%d %s" % (name, x, r.rc, r.err.decode("latin1")[-600:]), files={"case.json": json.dumps(dict(archive=name, codec=x))})
                    continue
                if x == "zstd" and not codecs.zstd_available():
                    continue
                try:
                    exp = codecs.decompress(x, r.out)
                except Exception as ex:
                    cr.violation("C15|sqfs2tar-c-undecodable|%s" % x, "image of %s: the reference %s decoder rejects the output (%d bytes): %r" % (name, x, len(r.out), ex),
                                 files={"out.bin": r.out[:2000000], "case.json": json.dumps(dict(archive=name, codec=x))})
                    continue
                if exp != plain.out:
                    cr.violation("C15|sqfs2tar-c-differs|%s" % x, "image of %s: sqfs2tar -c %s expands to %d bytes, plain output has %d bytes%s" % (
                        name, x, len(exp), len(plain.out), " (a prefix of it)" if plain.out.startswith(exp) else ""), files={"out.bin": r.out[:2000000], "case.json": json.dumps(dict(archive=name, codec=x))})
                distinct.add(hashlib.sha256(r.out).hexdigest())
        for i in (3, len(cases) // 2, len(cases) - 3):
            cr.sample({"kind": cases[i][0], "archive": cases[i][1], "what": cases[i][2]})
        cr.coverage.update(evaluations=n_eval, distinct_nontrivial=len(distinct), cases_by_kind=kinds, damaged_input_outcomes=outcomes, sqfs2tar_compressed_outputs=nb,
                           codecs=cods, archives=[a[0] for a in arcs],
                           rule="Archives: 1.5 KiB, 40 KiB, and incompressible archives of 262144+d*512 bytes (d in -4..4, and twice that) so that the compressed stream crosses the 128 KiB file "
                                "buffer and the plain stream the 256 KiB transform buffer. x codecs {gzip, xz, bzip2, zstd with/without frame checksum} (reference encoders, not lib/xfrm) x levels "
                                "{min, default, max} x block sizes; two-member splits at every offset (small archive) / every 512-byte boundary +-1, a three-member split, real pipes with chunk sizes "
                                "1..65536. Strict oracle: exit 0 and image sha256 == plain archive's. Trailing zeros/garbage, every prefix and every single-byte corruption of the compressed small "
                                "archive: exit != 0, or exit 0 with the intact image. sqfs2tar -c {gzip,xz,bzip2,zstd} on 3 images, expanded by the reference decoder, must equal the plain "
                                "output. distinct = distinct input/output byte strings.")
        cr.assumptions += ["reference codecs: Python zlib/lzma/bz2 and the system libzstd through ctypes"]
    return cr.finish()


if __name__ == "__main__":
    main_wrapper(main)
