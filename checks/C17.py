#!/usr/bin/env python3
"""C17 — packing directives: every sort file over small priority/flag/pattern alphabets x -T/-e/-b for all small trees;
layout facts decoded by the independent decoder must match the documented effect and nothing else may change."""
import os, sys, json, shutil, tempfile, itertools, re, hashlib
sys.path.insert(0, os.path.dirname(os.path.dirname(os.path.abspath(__file__))))
from vlib.common import *
from vlib import build, treegen, packcheck, sqfsck
from vlib.treegen import E, content_pattern

SCR = None
B0 = 4096
FLAGS = ["dont_compress", "dont_fragment", "nosparse", "dont_deduplicate"]


def file_alphabet(B):
    # tails are compressible so that the compressed bit of a fragment block is observable
    d = content_pattern("dd", 2 * B) + b"same tail " * 30
    return [(b"a/s", b"small file, compressible. " * 27), (b"a/m", content_pattern("m", B) + b"tail of m " * 40), (b"b/e", b"E" * B),
            (b"b/z", bytes(2 * B) + b"zt" * 100), (b"b/d1", d), (b"c/d2", d), (b"c/q\"x y", b"Q" * (B + 5))]


def pat_to_re(pat, path_mode):
    out = ""
    for ch in pat:
        if ch == "*":
            out += "[^/]*" if path_mode else ".*"
        elif ch == "?":
            out += "[^/]" if path_mode else "."
        else:
            out += re.escape(ch)
    return re.compile("^" + out + "$", re.S)


def model_assign(paths, lines):
    """lines: list of (priority, flags set, kind, pattern). returns path -> (priority, flags) by first matching line"""
    res = {p: (0, frozenset()) for p in paths}
    matched = set()
    for prio, fl, kind, pat in lines:
        for p in paths:          # default (DFS, name-sorted) order
            if p in matched:
                continue
            s = p.decode("latin1")
            if kind == "exact":
                ok = s == pat
            else:
                ok = bool(pat_to_re(pat, kind == "glob").match(s))
            if ok:
                res[p] = (prio, frozenset(fl))
                matched.add(p)
                if kind == "exact":
                    break
    return res


def render_sort(lines):
    out = []
    for prio, fl, kind, pat in lines:
        flags = list(fl)
        if kind == "glob":
            flags.append("glob")
        elif kind == "glob_no_path":
            flags.append("glob_no_path")
        name = pat
        if any(c in name for c in ' "\\'):
            name = '"' + name.replace("\\", "\\\\").replace('"', '\\"') + '"'
        out.append("%d %s%s" % (prio, ("[" + ",".join(flags) + "] ") if flags else "", name))
    return ("# generated\n" + "\n".join(out) + "\n").encode("latin1")


def facts(im, paths):
    f = {}
    for p in paths:
        n = im.tree[p]
        lay = n["layout"]
        f[p] = dict(start=lay["start"], blocks=[(ond, comp, sparse) for (_, ond, comp, sparse) in lay["blocks"]],
                    locs=[pos for (pos, ond, comp, sparse) in lay["blocks"] if not sparse],
                    frag=lay["frag"], size=n["size"], sha=n["sha"])
    return f


def evaluate(case):
    if case.get("kind") == "export":
        return evaluate_export(case)
    wd = tempfile.mkdtemp(prefix="c", dir=SCR)
    try:
        B = case["cfg"].get("bs", B0)
        alpha = dict(file_alphabet(B))
        if case.get("leak"):
            alpha = LEAK_FILES(B)
        if case.get("fset") == "zt":
            alpha = ZT_FILES(B)
        paths = sorted(case["files"])
        spec = [E(p, "file", content=alpha[p]) for p in paths]
        lines = case["lines"]
        r, img, argv = packcheck.pack(spec, case["cfg"], wd, sortfile=render_sort(lines) if lines is not None else None)
        label = "files %s sort %r cfg %s" % ([p.decode("latin1") for p in paths], render_sort(lines).decode("latin1") if lines is not None else None, json.dumps(case["cfg"], sort_keys=True))

        def viol(fp, what):
            fl = packcheck.artefact_files(wd, limit=200000)
            fl["case.json"] = json.dumps(dict(files=[p.decode("latin1") for p in paths], lines=lines, cfg=case["cfg"], leak=bool(case.get("leak")), fset=case.get("fset")), default=list)
            return dict(status="violation", fp=fp, what=label + "\n" + what, files=fl)
        if r.timeout or r.crashed or r.rc != 0:
            return viol("C17|pack-fails|" + (r.crash_fingerprint() if r.crashed else "rc"), "rc=%d %s" % (r.rc, r.err.decode("latin1")[-800:]))
        im, err = packcheck.decode(img)
        if im is None:
            return viol("C17|undecodable", err)
        if im.violations:
            return viol("C17|invalid-image|" + im.violations[0][0], "%s" % (im.violations[:3],))
        for p in paths:
            if p not in im.tree or im.tree[p]["sha"] != hashlib.sha256(alpha[p]).hexdigest():
                return viol("C17|content-changed", "file %r does not read back byte-exact" % p)
        F = facts(im, paths)
        T = bool(case["cfg"].get("T"))
        assign = model_assign(paths, lines or [])
        # 1. flags on each file; unflagged files as the default policy says
        for p in paths:
            prio, fl = assign[p]
            f = F[p]
            size = f["size"]
            nfull, tail = divmod(size, B)
            want_frag = tail != 0 and "dont_fragment" not in fl and not (T and size > B)
            if tail and not any(alpha[p][nfull * B:]) and "nosparse" not in fl:
                want_frag = False  # an all-zero tail is a hole unless nosparse asks for it to be materialised
            if (f["frag"] is not None) != want_frag:
                which = "dont_fragment" if "dont_fragment" in fl else ("-T" if T else "default")
                return viol("C17|fragment-policy|%s" % which, "file %r (size %d, flags %s, -T=%s): fragment %s, expected %s" % (
                    p, size, sorted(fl), T, "present" if f["frag"] else "absent", "present" if want_frag else "absent"))
            want_blocks = nfull + (1 if (tail and not want_frag) else 0)
            if len(f["blocks"]) != want_blocks:
                return viol("C17|block-count", "file %r: %d blocks, expected %d" % (p, len(f["blocks"]), want_blocks))
            data = alpha[p]
            for i, (ond, comp, sparse) in enumerate(f["blocks"]):
                chunk = data[i * B:(i + 1) * B]
                zero = not any(chunk)
                if "nosparse" in fl:
                    if sparse:
                        return viol("C17|nosparse", "file %r flagged nosparse: block %d stored as a hole" % (p, i))
                elif zero and not sparse:
                    return viol("C17|sparse-default", "file %r: all-zero block %d is materialised without nosparse" % (p, i))
                if "dont_compress" in fl and comp:
                    return viol("C17|dont_compress", "file %r flagged dont_compress: block %d is stored compressed" % (p, i))
                if "dont_compress" not in fl and not sparse and not comp and len(set(chunk)) == 1 and len(chunk) == B:
                    return viol("C17|compress-default", "file %r: uniform block %d stored uncompressed without dont_compress" % (p, i))
            if "dont_compress" in fl and f["frag"] is not None:
                fi = f["frag"][0]
                # a tail that is deduplicated against the tail of a file not flagged dont_compress lives in that file's block: not judged
                shared = any(q != p and F[q]["frag"] is not None and F[q]["frag"][:2] == f["frag"][:2] and "dont_compress" not in assign[q][1] for q in paths)
                if im.frags[fi][2] and not shared:
                    return viol("C17|dont_compress-fragment", "file %r flagged dont_compress: its fragment block %d is compressed" % (p, fi))
        # 2. dont_deduplicate / default sharing between the identical siblings
        if b"b/d1" in F and b"c/d2" in F:
            a, b = F[b"b/d1"], F[b"c/d2"]
            nodedup = "dont_deduplicate" in assign[b"b/d1"][1] or "dont_deduplicate" in assign[b"c/d2"][1]
            # the file packed second decides (its blocks are looked up); identical settings otherwise
            same_policy = (assign[b"b/d1"][1] - {"dont_deduplicate"}) == (assign[b"c/d2"][1] - {"dont_deduplicate"})
            order = sorted([b"b/d1", b"c/d2"], key=lambda p: (assign[p][0], paths.index(p)))
            second = order[1]
            if "dont_deduplicate" in assign[second][1]:
                if a["locs"] and a["locs"] == b["locs"]:
                    return viol("C17|dont_deduplicate|blocks", "identical files share data blocks although the later one is flagged dont_deduplicate")
                if a["frag"] and b["frag"] and a["frag"][:2] == b["frag"][:2]:
                    return viol("C17|dont_deduplicate|fragment", "identical files share their tail although the later one is flagged dont_deduplicate")
            elif not nodedup and same_policy:
                if a["locs"] != b["locs"] or (a["frag"] or (0, 0))[:2] != (b["frag"] or (0, 0))[:2]:
                    return viol("C17|dedup-default", "identical unflagged files do not share storage: %r vs %r" % ((a["locs"], a["frag"]), (b["locs"], b["frag"])))
        # 3. order: ascending priority, ties in default order (stable)
        expect = sorted(paths, key=lambda p: (assign[p][0], paths.index(p)))
        # position of a file's own data: first stored block, else fragment position; files sharing storage are skipped
        seen_loc = set()
        blk_order, frag_order = [], []
        for p in expect:
            f = F[p]
            if f["locs"]:
                key = ("b", f["locs"][0])
                if key not in seen_loc:
                    seen_loc.add(key)
                    blk_order.append((p, f["locs"][0]))
            if f["frag"] is not None:
                key = ("f",) + tuple(f["frag"][:2])
                if key not in seen_loc:
                    seen_loc.add(key)
                    frag_order.append((p, tuple(f["frag"][:2])))
        if [x[1] for x in blk_order] != sorted(x[1] for x in blk_order):
            return viol("C17|order|blocks", "data blocks are not laid out in ascending priority order (stable): expected file order %s, block starts %s" % (
                [p.decode("latin1") for p in expect], blk_order))
        if [x[1] for x in frag_order] != sorted(x[1] for x in frag_order):
            return viol("C17|order|fragments", "tails are not packed in ascending priority order (stable): expected file order %s, fragment positions %s" % (
                [p.decode("latin1") for p in expect], frag_order))
        # 4. export table
        if case["cfg"].get("e") and im.export is None:
            return viol("C17|export-missing", "-e given but the image has no export table")
        if not case["cfg"].get("e") and im.export is not None:
            return viol("C17|export-unexpected", "export table without -e")
        return dict(status="ok", sha=sha_file(img), nontrivial=bool(lines))
    finally:
        shutil.rmtree(wd, ignore_errors=True)


def cases(tier):
    quick = tier == "quick"
    alpha = [p for p, _ in file_alphabet(B0)]
    kmax = 3 if quick else 4
    subsets = [c for k in range(1, kmax + 1) for c in itertools.combinations(alpha, k)]
    # subsets used for the priority-magnitude family: two multi-block files (+ an unlisted third)
    two_three = [c for c in subsets if len(c) in (2, 3) and b"a/m" in c and b"b/d1" in c]
    base_cfgs = [dict(comp="gzip", bs=B0), dict(comp="gzip", bs=B0, T=1)] + ([] if quick else [dict(comp="zstd", bs=B0, e=1), dict(comp="gzip", bs=8192), dict(comp="lz4", bs=B0, T=1, e=1)])
    for files in subsets:
        paths = sorted(files)
        # no sort file at all (default policy) under every option set
        for cfg in base_cfgs:
            yield dict(files=files, lines=None, cfg=cfg)
        # A. all priority vectors, lines written in reverse default order
        if len(paths) <= 3 or not quick:
            for vec in itertools.product((-1, 0, 1), repeat=len(paths)):
                lines = [(pr, [], "exact", p.decode("latin1")) for pr, p in reversed(list(zip(vec, paths)))]
                for cfg in (base_cfgs[:1] if (quick and len(paths) == 3) else base_cfgs[:2]):
                    yield dict(files=files, lines=lines, cfg=cfg)
        # A2. priority magnitudes: the priority is a signed 64-bit number; all ordered pairs over its boundary alphabet on two files (a third stays unlisted = 0)
        if len(paths) in (2, 3) and (not quick or files in two_three[:2]):
            P64 = [-(1 << 63) + 2, -(1 << 62), -(1 << 32) - 1, -(1 << 31) - 1, -(1 << 31), -3000000000, -1, 0, 1, (1 << 31) - 1, 1 << 31, 3000000000, 1 << 32, (1 << 32) + 1, 1 << 62, (1 << 63) - 2]
            for p1, p2 in itertools.product(P64, repeat=2):
                lines = [(p2, [], "exact", paths[-1].decode("latin1")), (p1, [], "exact", paths[0].decode("latin1"))]
                yield dict(files=files, lines=lines, cfg=base_cfgs[0])
        # B. every flag subset on each file in turn
        if len(paths) <= 2 or not quick:
            for p in paths:
                for r in range(1, 5):
                    for fl in itertools.combinations(FLAGS, r):
                        for prio in ((0,) if quick else (0, -1)):
                            yield dict(files=files, lines=[(prio, list(fl), "exact", p.decode("latin1"))], cfg=base_cfgs[0])
                            if r == 1 or (r == 4 and not quick):
                                # each flag together with --no-tail-packing: -T may only add dont_fragment behaviour for files larger than one block
                                yield dict(files=files, lines=[(prio, list(fl), "exact", p.decode("latin1"))], cfg=base_cfgs[1])
        # C. pattern kinds and overlapping lines in both orders (first match wins)
        if len(paths) >= 2:
            p0 = paths[0].decode("latin1")
            pats = [("glob", "*/*"), ("glob", "*"), ("glob_no_path", "*"), ("glob", "b/*"), ("glob_no_path", "*d?"), ("glob", "?/d*"), ("exact", "no/such")]
            for kind, pat in pats:
                l_ex = (-1, ["dont_fragment"], "exact", p0)
                l_gl = (1, ["dont_compress"], kind, pat)
                yield dict(files=files, lines=[l_ex, l_gl], cfg=base_cfgs[0])
                yield dict(files=files, lines=[l_gl, l_ex], cfg=base_cfgs[0])
                yield dict(files=files, lines=[l_gl], cfg=base_cfgs[0])


def LEAK_FILES(B):
    return {b"a/m": content_pattern("m", B) + b"tail of m " * 40, b"b/d1": b"D" * (2 * B) + b"same tail " * 30, b"g/x[12]": b"X" * B + b"x12 " * 50,
            b"g/x1": b"Y" * B + b"x1 " * 60, b"g/x2": b"Z" * B + b"x2 " * 60}


def ZT_FILES(B):
    # files whose last partial block is all zero (after real data), next to ordinary ones
    return {b"z/a": content_pattern("za", B) + bytes(300), b"z/b": content_pattern("zb", 2 * B) + bytes(B - 1), b"z/c": b"C" * B + b"tail " * 20,
            b"z/d": content_pattern("zd", B) + bytes(B) + bytes(7)}


def zero_tail_cases(tier):
    """each flag (and none) x with/without -T on files whose partial last block is all zero"""
    B = B0
    files = tuple(sorted(ZT_FILES(B)))
    for cfg in (dict(comp="gzip", bs=B), dict(comp="gzip", bs=B, T=1), dict(comp="lz4", bs=B, T=1, e=1)):
        yield dict(files=files, lines=None, cfg=cfg, fset="zt")
        for fl in [[f] for f in FLAGS] + [["dont_fragment", "dont_compress"], ["dont_fragment", "nosparse"]]:
            for p in files:
                yield dict(files=files, lines=[(0, fl, "exact", p.decode("latin1"))], cfg=cfg, fset="zt")
            yield dict(files=files, lines=[(1, fl, "glob", "z/*")], cfg=cfg, fset="zt")


EXPORT_BASE = [(b"a", "dir"), (b"a/f1", "file"), (b"a/f2", "file"), (b"a/x", "dir"), (b"a/x/deep", "file"), (b"b", "dir"), (b"b/g", "file"), (b"c", "dir"), (b"c/h", "file")]
EXPORT_LINKS = [(b"b/zz", b"a/f2"), (b"a/aa", b"b/g"), (b"top", b"a/x/deep"), (b"c/first", b"c/h"), (b"b/back", b"a/f1")]


def export_cases(tier):
    """--exportable: inode numbers are handed out in tree order, the export table is filled while directories are written; hard links make entries
    arrive out of ascending inode order. Every subset of five links x {-e, -e -T, -e with a sort file}"""
    import itertools as it
    for r in range(0, len(EXPORT_LINKS) + 1):
        for sub in it.combinations(range(len(EXPORT_LINKS)), r):
            for cfg, sort in ((dict(comp="gzip", bs=B0, e=1), None), (dict(comp="lz4", bs=B0, e=1, T=1), None), (dict(comp="gzip", bs=B0, e=1), b"-3 c/h\n2 a/f1\n")):
                if tier == "quick" and cfg.get("T") and r not in (1, 5):
                    continue
                yield dict(kind="export", links=list(sub), cfg=cfg, sort=sort, files=(), lines=None)


def evaluate_export(case):
    wd = tempfile.mkdtemp(prefix="x", dir=SCR)
    try:
        spec = [E(p, t, 0o755) if t == "dir" else E(p, "file", content=content_pattern(p.decode(), 300 + 7 * len(p))) for p, t in EXPORT_BASE]
        spec += [E(EXPORT_LINKS[i][0], "link", target=EXPORT_LINKS[i][1]) for i in case["links"]]
        r, img, argv = packcheck.pack(spec, case["cfg"], wd, sortfile=case["sort"])
        label = "export family: links %s cfg %s sort %r" % ([(EXPORT_LINKS[i][0].decode(), EXPORT_LINKS[i][1].decode()) for i in case["links"]], json.dumps(case["cfg"], sort_keys=True), case["sort"])

        def viol(fp, what):
            fl = packcheck.artefact_files(wd, limit=200000)
            fl["case.json"] = json.dumps(dict(kind="export", links=case["links"], cfg=case["cfg"], sort=case["sort"].decode() if case["sort"] else None))
            return dict(status="violation", fp=fp, what=label + "\n" + what, files=fl)
        if r.timeout or r.crashed or r.rc != 0:
            return viol("C17|pack-fails|" + (r.crash_fingerprint() if r.crashed else "rc"), "rc=%d %s" % (r.rc, r.err.decode("latin1")[-800:]))
        im, err = packcheck.decode(img)
        if im is None:
            return viol("C17|undecodable", err)
        if im.violations:
            return viol("C17|invalid-image|" + im.violations[0][0], "%s" % (im.violations[:3],))
        if im.export is None:
            return viol("C17|export-missing", "-e given but the image has no export table")
        if any(v == 0xFFFFFFFFFFFFFFFF for v in im.export):
            return viol("C17|export-entry-unset", "export table has unset entries: %r" % [i + 1 for i, v in enumerate(im.export) if v == 0xFFFFFFFFFFFFFFFF][:8])
        for e in spec:
            if e["type"] == "file" and (e["path"] not in im.tree or im.tree[e["path"]]["sha"] != hashlib.sha256(e["content"]).hexdigest()):
                return viol("C17|content-changed", "file %r does not read back byte-exact" % e["path"])
            if e["type"] == "link" and (e["path"] not in im.tree or im.tree[e["path"]]["ino"] != im.tree[e["target"]]["ino"]):
                return viol("C17|tree-changed", "hard link %r is not the inode of %r" % (e["path"], e["target"]))
        return dict(status="ok", sha=sha_file(img), nontrivial=True)
    finally:
        shutil.rmtree(wd, ignore_errors=True)


def leak_cases(tier):
    """two- and three-line sort files in which a line WITHOUT a flag list follows a line with one (per-line state must not carry over): flags, glob mode"""
    B = B0
    files = tuple(sorted(LEAK_FILES(B)))
    first = [(3, [f], "exact", "a/m") for f in FLAGS] + [(3, ["dont_compress", "dont_fragment"], "exact", "a/m"), (2, [], "glob", "a/*"), (2, [], "glob_no_path", "*m"),
                                                           (2, ["nosparse"], "glob", "a/?")]
    second = [(-5, [], "exact", "b/d1"), (-7, [], "exact", "g/x[12]"), (-6, [], "exact", "g/x1")]
    for l1 in first:
        for l2 in second:
            yield dict(files=files, lines=[l1, l2], cfg=dict(comp="gzip", bs=B), leak=True)
            for l3 in second:
                if l3 is not l2 and tier != "quick":
                    yield dict(files=files, lines=[l1, l2, l3], cfg=dict(comp="gzip", bs=B), leak=True)


def main():
    global SCR
    cr = CheckRun("C17", "exploration", default_budget=(420, 3000))
    with build.Scratch("C17") as sd:
        SCR = sd
        packcheck.TOOLS.update(build.build_tools(build.variant("asan"), os.path.join(sd, "bin"), tools=["gensquashfs"]))
        if cr.replay:
            case = json.load(open(os.path.join(cr.replay, "case.json")))
            if case.get("kind") == "export":
                case["sort"] = case["sort"].encode() if case.get("sort") else None
                print(evaluate_export(case))
                return 1
            case["files"] = [f.encode("latin1") for f in case["files"]]
            if case["lines"] is not None:
                case["lines"] = [tuple(l) for l in case["lines"]]
            print(evaluate(case))
            return 1
        cl = list(cases(cr.tier)) + list(leak_cases(cr.tier)) + list(zero_tail_cases(cr.tier)) + list(export_cases(cr.tier))
        cr.coverage["planned_cases"] = len(cl)
        n_eval = 0
        seen = set()
        chunk = 3000
        for off in range(0, len(cl), chunk):
            if cr.expired():
                cr.cap("deadline after %d of %d" % (off, len(cl)))
                break
            for c, r in zip(cl[off:off + chunk], pmap(evaluate, cl[off:off + chunk])):
                n_eval += 1
                if r["status"] == "violation":
                    cr.violation(r["fp"], r["what"], files=r["files"], replay_sh="python3 /verif/checks/C17.py --replay \"$PWD\"")
                    continue
                seen.add(r["sha"])
                if r["nontrivial"] and len(cr.coverage["samples"]) < 5 and len(c["files"]) >= 2 and c["lines"] and len(c["lines"]) >= 2:
                    cr.sample({"files": [f.decode("latin1") for f in c["files"]], "sort_file": render_sort(c["lines"]).decode("latin1"), "cfg": c["cfg"]})
        cr.coverage.update(evaluations=n_eval, distinct_nontrivial=len(seen),
                           rule="Trees = all subsets of <=3 (quick) / <=4 (thorough) regular files from {a/s (<B), a/m (B+tail), b/e (=B uniform), b/z (2B zeros+tail), b/d1 and c/d2 "
                                "(identical 2B+tail), c/q\"x y (quoted name)}. Sort files: every priority vector in {-1,0,1}^k (lines in reverse default order), every non-empty subset of "
                                "{dont_compress,dont_fragment,nosparse,dont_deduplicate} on each file in turn, exact/glob/glob_no_path patterns with and without '/' crossing, overlapping exact+glob "
                                "lines in both orders, a line matching nothing; x {default,-T,-e,-b 8192}. distinct = distinct image sha256. Oracle on decoded layout: block/fragment order == stable "
                                "sort by priority, first matching line wins, each flag has exactly its documented effect, unflagged files follow the default policy, -T only affects files > B, "
                                "export table iff -e (entries validated), image valid (C03 validator), contents byte-exact.")
        cr.assumptions += ["SQFSCK decoder and validator", "fnmatch semantics modelled for '*' and '?' only (no bracket expressions in the patterns used)"]
    return cr.finish()


if __name__ == "__main__":
    main_wrapper(main)
