#!/usr/bin/env python3
"""C18 — path canonicalisation: exhaustive enumeration of all strings up to a length bound
over small alphabets, real canonicalize_name()/is_filename_sane() vs an independent spec."""
import os, sys, json, subprocess
sys.path.insert(0, os.path.dirname(os.path.dirname(os.path.abspath(__file__))))
from vlib.common import *
from vlib import build


def run_cfg(a):
    exe, alpha, maxlen, period = a
    r = run_tool([exe, alpha, str(maxlen)] + ([str(period)] if period else []), timeout=3000)
    return (alpha, maxlen, period, r)


def main():
    cr = CheckRun("C18", "exploration", default_budget=(120, 900))
    with build.Scratch("C18") as sd:
        v = build.variant("asan")
        srcs = [os.path.join(build.REPO, "lib/util/src/canonicalize_name.c"),
                os.path.join(build.REPO, "lib/util/src/filename_sane.c"),
                os.path.join(VERIF, "engines/str/canon_enum.c")]
        exe = os.path.join(sd, "canon_enum")
        build._cc(["clang"] + v.cflags + build.base_cppflags(v) + srcs + ["-o", exe] + v.ldflags)
        if cr.replay:
            d = json.load(open(os.path.join(cr.replay, "case.json")))
            r = run_tool([exe] + d["argv"], timeout=3000)
            print(r.out.decode(), r.err.decode()[-2000:])
            return 1 if (r.rc != 0) else 0
        # alphabets: '/', '.', 'a', 0xE9 (+ 'b', + '\\', + ' ')
        if cr.quick:
            cfgs = [("2f2e61e9", 10, 0), ("2f2e6162e9", 8, 0), ("2f2e61", 5, 1)]
        else:
            cfgs = [("2f2e61e9", 12, 0), ("2f2e6162e9", 10, 0), ("2f2e61625ce920", 8, 0), ("2f2e61e9", 6, 1), ("2f2e", 16, 0)]
        res = pmap(run_cfg, [(exe, a, m, p) for a, m, p in cfgs])
        tot = dict(evaluations=0, refused=0, rewritten=0, unchanged=0)
        for alpha, maxlen, period, r in res:
            argv = [alpha, str(maxlen)] + ([str(period)] if period else [])
            try:
                j = json.loads(r.out.decode().strip().splitlines()[-1])
            except Exception:
                j = None
            if r.crashed or r.timeout or j is None:
                fp = "C18|" + (r.crash_fingerprint() if r.crashed else "no-result")
                cr.violation(fp, "enumerator died: rc=%d\n%s" % (r.rc, r.err.decode("latin1")[-3000:]),
                             files={"case.json": json.dumps({"argv": argv})},
                             replay_sh="python3 /verif/checks/C18.py --replay .")
                continue
            for k in tot:
                tot[k] += j[k]
            cr.sample({"alphabet_hex": alpha, "maxlen": maxlen, "periodic_long": bool(period), **{k: j[k] for k in tot}})
            if j["mismatches"]:
                fb = j["first_bad"]
                cr.violation("C18|%s" % fb["why"], "%d mismatching strings; first: %s" % (j["mismatches"], json.dumps(fb)),
                             files={"case.json": json.dumps({"argv": argv, "first_bad": fb})},
                             replay_sh="python3 /verif/checks/C18.py --replay .")
        cr.coverage.update(evaluations=tot["evaluations"],
                           distinct_nontrivial=tot["refused"] + tot["rewritten"],
                           refused=tot["refused"], rewritten=tot["rewritten"], unchanged=tot["unchanged"],
                           rule="every string of length 0..L over each alphabet (hex bytes listed per sample) is generated once; "
                                "periodic mode repeats every string of length<=L to lengths 255,256,257,4096,65537. A case is non-trivial "
                                "when the implementation had to act: it refused the string or rewrote it (input != output). "
                                "Checked per string: return value and buffer == independent specification, no write outside "
                                "[start, original terminator] (guard bytes + ASan), output clean, idempotent, "
                                "is_filename_sane(s,0/1) == (s not in {'.','..'} and '/' not in s).")
        cr.assumptions += ["non-Windows build of filename_sane.c (as configured in /repo)",
                           "strings contain no NUL (C strings)"]
    return cr.finish()


if __name__ == "__main__":
    main_wrapper(main)
