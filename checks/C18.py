#!/usr/bin/env python3
"""C18 — path canonicalisation: exhaustive enumeration of all strings up to a length bound
over small alphabets, real canonicalize_name()/is_filename_sane() vs an independent spec."""
import os, sys, json, subprocess, itertools, tempfile, shutil
sys.path.insert(0, os.path.dirname(os.path.dirname(os.path.abspath(__file__))))
from vlib.common import *
from vlib import build, packcheck, sqfsck, tarmk, tarcases

FT = {}
FSCR = None


def spec_canon(s):
    """independent specification: None if a component is '..', else the clean relative form"""
    parts = [p for p in s.split(b"/") if p not in (b"", b".")]
    if b".." in parts:
        return None
    return b"/".join(parts)


def spellings(maxlen):
    good, bad = [], []
    for n in range(1, maxlen + 1):
        for t in itertools.product(b"df./", repeat=n):
            s = bytes(t)
            c = spec_canon(s)
            if c == b"d/f":
                good.append(s)
            elif c is None and spec_canon(s.replace(b"..", b".")) in (b"d/f", b"d", b"f") and s.count(b"..") == 1 and b"..." not in s:
                bad.append(s)
    return good, bad


def funnel_case(a):
    """one spelling through every place where the tools take a path from outside"""
    sp, good = a
    wd = tempfile.mkdtemp(prefix="f", dir=FSCR)
    out = []
    try:
        sps = os.fsdecode(sp)
        os.makedirs(os.path.join(wd, "in", "d"))
        open(os.path.join(wd, "in", "d", "f"), "wb").write(b"the file d/f\n")
        base = os.path.join(wd, "base.sqfs")

        def gen(listing, img):
            lf = os.path.join(wd, "list.txt")
            open(lf, "wb").write(listing)
            if os.path.exists(img):
                os.unlink(img)
            return run_tool([FT["gensquashfs"], "-q", "-c", "gzip", "-b", "4096", "-F", lf, "-D", os.path.join(wd, "in"), img], timeout=30)

        def linked(img, a_, b_):
            im, err = packcheck.decode(img)
            if im is None:
                return "undecodable: %s" % err
            if a_ not in im.tree or b_ not in im.tree:
                return "entry missing: %r" % sorted(im.tree)[:6]
            return None if im.tree[a_]["ino"] == im.tree[b_]["ino"] else "%r and %r are different inodes" % (a_, b_)

        def judge(name, r, extra_ok=None):
            if r.crashed or r.timeout:
                out.append((name, "crash", r.err.decode("latin1")[-600:]))
            elif good and r.rc != 0:
                out.append((name, "refused", r.err.decode("latin1")[-200:]))
            elif not good and r.rc == 0:
                out.append((name, "accepted-dotdot", ""))
            elif good and extra_ok is not None:
                why = extra_ok()
                if why:
                    out.append((name, "wrong-entry", why))
        r0 = gen(b"dir /d 0755 0 0\nfile /d/f 0644 0 0 d/f\n", base)
        if r0.rc != 0:
            raise RuntimeError("cannot build the funnel base image: %s" % r0.err[-200:])
        q = b'"' + sp.replace(b"\\", b"\\\\") + b'"'
        # 1. pack file: hard link target, entry path
        img = os.path.join(wd, "o.sqfs")
        r = gen(b"dir /d 0755 0 0\nfile /d/f 0644 0 0 d/f\nlink /l 0777 0 0 " + q + b"\n", img)
        judge("gensquashfs link target", r, lambda: linked(img, b"l", b"d/f"))
        r = gen(b"file " + q + b" 0644 0 0 d/f\n", img)
        judge("gensquashfs entry path", r, lambda: None if (packcheck.decode(img)[0] is not None and b"d/f" in packcheck.decode(img)[0].tree) else "entry not at d/f")
        # 1b. the path field of every other pack-file line type, the glob line included (it hands the path to another routine than the others)
        def tree_is_exactly(want):
            im_, err_ = packcheck.decode(img)
            if im_ is None:
                return "undecodable: %s" % err_
            return None if sorted(im_.tree) == sorted(want) else "tree is %r, expected %r" % (sorted(im_.tree)[:6], sorted(want))
        for kind_, rest_ in (("dir", b"0755 0 0"), ("slink", b"0777 0 0 target"), ("nod", b"0600 0 0 c 1 2"), ("pipe", b"0600 0 0"), ("sock", b"0600 0 0")):
            r = gen(kind_.encode() + b" " + q + b" " + rest_ + b"\n", img)
            judge("gensquashfs %s path" % kind_, r, lambda: tree_is_exactly([b"", b"d", b"d/f"]))
        r = gen(b"glob " + q + b" * * * d\n", img)
        judge("gensquashfs glob path", r, lambda: tree_is_exactly([b"", b"d", b"d/f", b"d/f/f"]))
        # 2. tar: hard link target, member name
        TE = tarcases.E
        for what, ents in (("tar2sqfs link target", [TE(b"d", "dir"), TE(b"d/f", "file", content=b"x"), TE(b"l", "link", target=sp)]),
                           ("tar2sqfs member name", [TE(sp, "file", content=b"x")])):
            try:
                data = tarmk.archive(ents, "gnu")
            except ValueError:
                continue
            if os.path.exists(img):
                os.unlink(img)
            r = run_tool([FT["tar2sqfs"], "-q", "-c", "gzip", img], stdin=data, timeout=30)
            if what.endswith("target"):
                judge(what, r, lambda: linked(img, b"l", b"d/f"))
            else:
                judge(what, r, lambda: None if (packcheck.decode(img)[0] is not None and b"d/f" in packcheck.decode(img)[0].tree) else "member not at d/f")
        # 3. command line paths of the readers
        r = run_tool([FT["rdsquashfs"], "-c", sps, base], timeout=30)
        judge("rdsquashfs --cat path", r, lambda: None if r.out == b"the file d/f\n" else "other content: %r" % r.out[:40])
        r = run_tool([FT["rdsquashfs"], "-s", sps, base], timeout=30)
        judge("rdsquashfs --stat path", r, lambda: None if b"Size: 13" in r.out or b"13" in r.out else "stat of another entry: %r" % r.out[:120])
        # 4. --root-becomes of sqfs2tar and tar2sqfs
        import io, tarfile
        r = run_tool([FT["sqfs2tar"], "-r", sps, base], timeout=30)

        def members_ok():
            try:
                names = [m.name for m in tarfile.open(fileobj=io.BytesIO(r.out))]
            except Exception as ex:
                return "unreadable archive: %r" % ex
            bad_ = [n for n in names if not (n == "d/f" or n.startswith("d/f/"))]
            return None if names and not bad_ else "members not under d/f: %r" % names[:4]
        judge("sqfs2tar --root-becomes", r, members_ok)
        data = tarmk.archive([TE(b"d", "dir"), TE(b"d/f", "dir"), TE(b"d/f/x", "file", content=b"x"), TE(b"other", "file", content=b"o")], "gnu")
        if os.path.exists(img):
            os.unlink(img)
        r = run_tool([FT["tar2sqfs"], "-q", "-c", "gzip", "-r", sps, img], stdin=data, timeout=30)
        judge("tar2sqfs --root-becomes", r, lambda: None if (packcheck.decode(img)[0] is not None and sorted(packcheck.decode(img)[0].tree) == [b"", b"x"]) else
              "tree is %r, expected only x" % (sorted(packcheck.decode(img)[0].tree)[:5] if packcheck.decode(img)[0] is not None else None))
        # 5. tar2sqfs --exclude-dir: the pattern on the command line and the member name in the archive both go through the funnel before they are compared
        def tree_is(want):
            im_, er_ = packcheck.decode(img)
            if im_ is None:
                return "undecodable: %s" % er_
            return None if sorted(im_.tree) == want else "tree is %r, expected %r" % (sorted(im_.tree)[:6], want)
        try:
            data = tarmk.archive([TE(b"keep", "file", content=b"k"), TE(sp, "file", content=b"x")], "gnu")
        except ValueError:
            data = None
        if data is not None:
            if os.path.exists(img):
                os.unlink(img)
            r = run_tool([FT["tar2sqfs"], "-q", "-c", "gzip", "-E", "d/f", img], stdin=data, timeout=30)
            judge("tar2sqfs --exclude-dir vs member name", r, lambda: tree_is([b"", b"keep"]))
        data = tarmk.archive([TE(b"keep", "file", content=b"k"), TE(b"d", "dir"), TE(b"d/f", "file", content=b"x")], "gnu")
        if os.path.exists(img):
            os.unlink(img)
        r = run_tool([FT["tar2sqfs"], "-q", "-c", "gzip", "-E", sps, img], stdin=data, timeout=30)
        judge("tar2sqfs --exclude-dir pattern", r, lambda: tree_is([b"", b"d", b"keep"]))
        return sp, good, out
    finally:
        shutil.rmtree(wd, ignore_errors=True)


def run_cfg(a):
    exe, alpha, maxlen, period = a
    r = run_tool([exe, alpha, str(maxlen)] + ([str(period)] if period else []), timeout=3000)
    return (alpha, maxlen, period, r)


def main():
    global FSCR
    cr = CheckRun("C18", "exploration", default_budget=(120, 900))
    with build.Scratch("C18") as sd:
        v = build.variant("asan")
        srcs = [os.path.join(build.REPO, "lib/util/src/canonicalize_name.c"),
                os.path.join(build.REPO, "lib/util/src/filename_sane.c"),
                os.path.join(VERIF, "engines/str/canon_enum.c")]
        exe = os.path.join(sd, "canon_enum")
        build._cc(["clang"] + v.cflags + build.base_cppflags(v) + srcs + ["-o", exe] + v.ldflags)
        if cr.replay:
            d = json.load(open(os.path.join(cr.replay, "case.json")))
            if d.get("funnel"):
                FSCR = sd
                FT.update(build.build_tools(v, os.path.join(sd, "bin"), tools=["gensquashfs", "tar2sqfs", "rdsquashfs", "sqfs2tar"]))
                packcheck.TOOLS.update(FT)
                print(funnel_case((d["spelling"].encode("latin1"), d["good"])))
                return 1
            r = run_tool([exe] + d["argv"], timeout=3000)
            print(r.out.decode(), r.err.decode()[-2000:])
            return 1 if (r.rc != 0) else 0
        # alphabets: '/', '.', 'a', 0xE9 (+ 'b', + '\\', + ' ')
        if cr.quick:
            cfgs = [("2f2e61e9", 10, 0), ("2f2e6162e9", 8, 0), ("2f2e61", 5, 1)]
        else:
            cfgs = [("2f2e61e9", 12, 0), ("2f2e6162e9", 10, 0), ("2f2e61625ce920", 8, 0), ("2f2e61e9", 6, 1), ("2f2e", 16, 0)]
        res = pmap(run_cfg, [(exe, a, m, p) for a, m, p in cfgs])
        tot = dict(evaluations=0, refused=0, rewritten=0, unchanged=0)
        for alpha, maxlen, period, r in res:
            argv = [alpha, str(maxlen)] + ([str(period)] if period else [])
            try:
                j = json.loads(r.out.decode().strip().splitlines()[-1])
            except Exception:
                j = None
            if r.crashed or r.timeout or j is None:
                fp = "C18|" + (r.crash_fingerprint() if r.crashed else "no-result")
                cr.violation(fp, "enumerator died: rc=%d\n%s" % (r.rc, r.err.decode("latin1")[-3000:]),
                             files={"case.json": json.dumps({"argv": argv})},
                             replay_sh="python3 /verif/checks/C18.py --replay .")
                continue
            for k in tot:
                tot[k] += j[k]
            cr.sample({"alphabet_hex": alpha, "maxlen": maxlen, "periodic_long": bool(period), **{k: j[k] for k in tot}})
            if j["mismatches"]:
                fb = j["first_bad"]
                cr.violation("C18|%s" % fb["why"], "%d mismatching strings; first: %s" % (j["mismatches"], json.dumps(fb)),
                             files={"case.json": json.dumps({"argv": argv, "first_bad": fb})},
                             replay_sh="python3 /verif/checks/C18.py --replay .")
        # ---- the funnel: every spelling of one path through every place where a tool takes a path from outside
        FSCR = sd
        FT.update(build.build_tools(v, os.path.join(sd, "bin"), tools=["gensquashfs", "tar2sqfs", "rdsquashfs", "sqfs2tar"]))
        packcheck.TOOLS.update(FT)
        good, bad = spellings(6 if cr.quick else 8)
        fres = pmap(funnel_case, [(s_, True) for s_ in good] + [(s_, False) for s_ in bad])
        n_funnel = 0
        for sp, is_good, probs in fres:
            n_funnel += 1
            for name, kind, why in probs:
                cr.violation("C18|funnel|%s|%s" % (name, kind), "spelling %r (%s) through %s: %s %s" % (
                    sp, "names d/f, no '..' component" if is_good else "contains a '..' component", name, kind, why),
                    files={"case.json": json.dumps({"funnel": True, "spelling": sp.decode("latin1"), "good": is_good})},
                    replay_sh="python3 /verif/checks/C18.py --replay .")
        # unpack paths: every attribute of an unpacked entry must be applied through the canonical (relative) form of its path
        ud = tempfile.mkdtemp(prefix="u", dir=sd)
        os.makedirs(os.path.join(ud, "in", "d"))
        open(os.path.join(ud, "in", "d", "f"), "wb").write(b"payload\n")
        open(os.path.join(ud, "l.txt"), "wb").write(b"dir /d 0750 0 0\nfile /d/f 0640 0 0 d/f\nslink /d/s 0777 0 0 f\n")
        open(os.path.join(ud, "x.txt"), "wb").write(b"# file: d/f\nuser.k=\"v\"\n\n# file: d\nuser.d=\"w\"\n")
        uimg = os.path.join(ud, "u.sqfs")
        ru = run_tool([FT["gensquashfs"], "-q", "-F", os.path.join(ud, "l.txt"), "-D", os.path.join(ud, "in"), "-A", os.path.join(ud, "x.txt"), uimg], timeout=30)
        if ru.rc != 0:
            raise RuntimeError("cannot build the unpack image: %s" % ru.err[-200:])
        for uopts in (["-X"], ["-C", "-O", "-T", "-X"], ["-C", "-O", "-T"]):
            R = os.path.join(ud, "R" + "".join(o.strip("-") for o in uopts))
            ru = run_tool([FT["rdsquashfs"], "-q", "-u", "/", "-p", R] + uopts + [uimg], timeout=30, cwd=ud)
            n_funnel += 1
            okx = True
            if ru.rc == 0 and "-X" in uopts:
                try:
                    okx = os.getxattr(os.path.join(R, "d", "f"), "user.k") == b"v" and os.getxattr(os.path.join(R, "d"), "user.d") == b"w"
                except OSError:
                    okx = False
            if ru.crashed or ru.rc != 0 or not okx or not os.path.exists(os.path.join(R, "d", "f")):
                cr.violation("C18|funnel|rdsquashfs unpack path|%s" % ("attributes-not-applied" if ru.rc == 0 else "fails"),
                             "rdsquashfs -u / -p R %s on an image with xattrs: rc=%d %s" % (" ".join(uopts), ru.rc, ru.err.decode("latin1")[-300:]),
                             files={"case.json": json.dumps({"unpack": uopts})})
        cr.coverage["funnel_spellings"] = {"clean_equivalents": len(good), "with_dotdot": len(bad), "funnels": 16}
        tot["evaluations"] += n_funnel
        cr.coverage.update(evaluations=tot["evaluations"],
                           distinct_nontrivial=tot["refused"] + tot["rewritten"],
                           refused=tot["refused"], rewritten=tot["rewritten"], unchanged=tot["unchanged"],
                           rule="every string of length 0..L over each alphabet (hex bytes listed per sample) is generated once; "
                                "periodic mode repeats every string of length<=L to lengths 255,256,257,4096,65537. A case is non-trivial "
                                "when the implementation had to act: it refused the string or rewrote it (input != output). "
                                "Checked per string: return value and buffer == independent specification, no write outside "
                                "[start, original terminator] (guard bytes + ASan), output clean, idempotent, "
                                "is_filename_sane(s,0/1) == (s not in {'.','..'} and '/' not in s). Funnel: every string over {d,f,.,/} up to length 6 (quick) / 8 whose clean form is d/f, and those "
                                "with one '..' component, as gensquashfs link target and entry path, tar2sqfs link target and member name, rdsquashfs --cat / --stat path, --root-becomes of sqfs2tar and tar2sqfs: accepted and resolving "
                                "to d/f, or refused, exactly as the specification says.")
        cr.assumptions += ["non-Windows build of filename_sane.c (as configured in /repo)",
                           "strings contain no NUL (C strings)"]
    return cr.finish()


if __name__ == "__main__":
    main_wrapper(main)
