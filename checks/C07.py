#!/usr/bin/env python3
"""C07 — untrusted tar streams / description files: deviation-bounded mutation of valid inputs (field level, token level, byte level),
truncation at every offset, all hard-link graphs on small node sets; tar2sqfs / gensquashfs (ASan) must terminate, and either write a
valid image or print a diagnostic, exit non-zero and leave no output file."""
import os, sys, json, shutil, tempfile, itertools, gzip, lzma, bz2, re
sys.path.insert(0, os.path.dirname(os.path.dirname(os.path.abspath(__file__))))
from vlib.common import *
from vlib import build, tarmk, tarcases, sqfsck, packcheck, treegen

SCR = None
T = {}
import multiprocessing as _mp
HANGS = _mp.Value("i", 0)       # confirmed hangs so far (shared with the forked workers)
FIELDS = [("name", 0, 100), ("mode", 100, 8), ("uid", 108, 8), ("gid", 116, 8), ("size", 124, 12), ("mtime", 136, 12), ("typeflag", 156, 1),
          ("linkname", 157, 100), ("magic", 257, 6), ("version", 263, 2), ("devmajor", 329, 8), ("devminor", 337, 8), ("prefix", 345, 155)]


def fix_checksum(h):
    h = bytearray(h)
    h[148:156] = b" " * 8
    h[148:156] = b"%06o\0 " % sum(h)
    return bytes(h)


def field_values(name, width):
    if name == "typeflag":
        return [bytes([i]) for i in range(256)]
    vals = [bytes(width), b"7" * width, b"9" * width, (b"-1" + bytes(width))[:width], b"\x80" + b"\xff" * (width - 1), b"\xff" + b"\x80" * (width - 1),
            b"\xff" * width, b"1" * width, (b" " * (width - 2) + b"7\0")[:width], (b"abc" + bytes(width))[:width], (b"0x10" + bytes(width))[:width]]
    if name in ("name", "linkname", "prefix"):
        vals += [b"/" * width, b"../" * (width // 3), (b"a/../b" + bytes(width))[:width], b"." * width, (b"./" + bytes(width))[:width], b"\xff" * width]
    return vals


def tar_bases():
    E = tarcases.E
    c = treegen.content_pattern("sp", 2048)
    sparse = c[:512] + bytes(512) + c[1024:1536] + bytes(512)
    ents = [E(b"d", "dir"), E(b"d/f", "file", content=b"hello world\n" * 20), E(b"d/l", "slink", target=b"f"), E(b"d/h", "link", target=b"d/f")]
    out = [("v7", tarmk.archive(ents, "v7")), ("ustar", tarmk.archive(ents + [E(b"c", "chr", dev=(5, 1))], "ustar")),
           ("gnu-long", tarmk.archive(ents + [E(tarcases.name_of_len(150), "file", content=b"long"), E(b"sl", "slink", target=tarcases.name_of_len(130, 40))], "gnu")),
           ("gnu-sparse-old", tarmk.archive([E(b"sp", "file", content=sparse, holes=[(512, 512), (1536, 512)], sparse="old")], "gnu")),
           ("pax", tarmk.archive(ents + [E(tarcases.name_of_len(200), "file", content=b"p", uid=1 << 30, pax_ids=True, xattrs={b"user.a": b"1"})], "pax")),
           ("pax-sparse-1.0", tarmk.archive([E(b"sp", "file", content=sparse, holes=[(512, 512), (1536, 512)], sparse="1.0")], "pax")),
           ("pax-sparse-0.1", tarmk.archive([E(b"sp", "file", content=sparse, holes=[(512, 512), (1536, 512)], sparse="0.1")], "pax")),
           ("pax-sparse-0.0", tarmk.archive([E(b"sp", "file", content=sparse, holes=[(512, 512), (1536, 512)], sparse="0.0")], "pax"))]
    return out


def header_offsets(data):
    """offsets of header records (walk sizes of the valid base archive)"""
    offs = []
    pos = 0
    while pos + 512 <= len(data):
        h = data[pos:pos + 512]
        if not any(h):
            break
        offs.append(pos)
        try:
            size = int(h[124:136].rstrip(b"\0 ") or b"0", 8)
        except ValueError:
            break
        pos += 512 + (size + 511) // 512 * 512
        if h[156:157] == b"S":
            pass
    return offs


def tar_cases(tier):
    quick = tier == "quick"
    cases = []
    for bname, data in tar_bases():
        offs = header_offsets(data)
        # field level, deviation 1 (checksum corrected so that the field itself is parsed)
        for hi, off in enumerate(offs):
            for fname, fo, fw in FIELDS:
                if fname == "prefix" and data[off + 156:off + 157] == b"S":
                    continue      # overlaps the old-GNU sparse fields incl. realsize (8 GiB of zeros is slow, not a hang); covered by the dedicated sparse cases
                vals = field_values(fname, fw)
                if quick and fname == "typeflag":
                    vals = vals[::5] + [b"S", b"x", b"g", b"L", b"K", b"1", b"2", b"5"]
                for v in vals:
                    h = bytearray(data[off:off + 512])
                    if h[fo:fo + fw] == v:
                        continue
                    h[fo:fo + fw] = v
                    cases.append(("tar", "%s hdr%d %s=%r" % (bname, hi, fname, v[:12]), data[:off] + fix_checksum(h) + data[off + 512:]))
            # wrong checksum, checksum field garbage
            for v in (b"0000000\0", b"7777777\0", b"\xff" * 8, b"        "):
                h = bytearray(data[off:off + 512])
                h[148:156] = v
                cases.append(("tar", "%s hdr%d chksum=%r" % (bname, hi, v), data[:off] + bytes(h) + data[off + 512:]))
        # truncation
        step = 64 if quick else (1 if len(data) <= 4096 else 16)
        for ln in range(0, len(data), step):
            cases.append(("tar", "%s truncated to %d" % (bname, ln), data[:ln]))
        # byte level on the first 1.5 KiB
        if not quick or bname in ("pax", "gnu-sparse-old", "pax-sparse-1.0"):
            rng = range(0, min(len(data), 1536)) if not quick else range(0, min(len(data), 1536), 3)
            for off in rng:
                for v in ((data[off] ^ 1, data[off] ^ 0x80, 0, 0xFF) if not quick else (data[off] ^ 1, 0xFF)):
                    if v != data[off]:
                        d = bytearray(data)
                        d[off] = v
                        cases.append(("tar", "%s byte %d=%#x" % (bname, off, v), bytes(d)))
    # PAX record mutations
    E = tarcases.E
    good = tarmk.pax_record(b"path", b"some/long/name")
    tail = tarmk.header(b"f", size=3, typeflag=b"0") + tarmk.pad(b"abc") + bytes(1024)
    recs = [b"0 path=x\n", b"1 path=x\n", b"%d path=some/long/name\n" % (len(good) - 1), b"%d path=some/long/name\n" % (len(good) + 1), b"999 path=x\n",
            b"10000000000000000000 path=x\n", b"-5 path=x\n", b"12 path\n", b" 9 a=b\n", b"9 =b\n\n", b"11 uid=abc\n", b"30 uid=18446744073709551616\n", b"31 size=18446744073709551615\n",
            b"27 mtime=-9223372036854775809\n", b"20 GNU.sparse.map=\n", b"23 GNU.sparse.map=1,\n", b"25 GNU.sparse.map=1,2,3\n", b"45 GNU.sparse.map=18446744073709551615,5,1,1\n",
            b"28 GNU.sparse.numbytes=5\n", b"26 GNU.sparse.offset=-1\n", b"30 LIBARCHIVE.xattr.user.a=!!!!\n", b"29 LIBARCHIVE.xattr.user.%=QQ==\n", b"22 SCHILY.xattr.=v\n",
            b"24 SCHILY.xattr.user=v\n", b"33 GNU.sparse.realsize=4294967297\n21 GNU.sparse.major=1\n21 GNU.sparse.minor=0\n"]
    ftail = tarmk.header(b"f", size=3, typeflag=b"0") + tarmk.pad(b"abc") + tarmk.header(b"z", size=1, typeflag=b"0") + tarmk.pad(b"z") + bytes(1024)
    # the same value alphabets with a CORRECT length prefix, so that the value parser (not the length check) sees them
    VALS = {b"GNU.sparse.map": [b"", b"0", b"0,", b"0,x", b"x", b",", b"0,,", b"0,512", b"0,512,", b"0,512,4096", b"0,512,4096,", b"0,512,4096,-1", b"0,512,,512",
                                b"0,512,4096,99999999999999999999999", b"18446744073709551615,5,1,1", b"0,0", b"5,0,0,5", b"-1,5"],
            b"GNU.sparse.numbytes": [b"", b"x", b"-1", b"18446744073709551616", b"5x"], b"GNU.sparse.offset": [b"", b"x", b"-1", b"18446744073709551616"],
            b"GNU.sparse.size": [b"", b"x", b"-1", b"18446744073709551615"], b"GNU.sparse.realsize": [b"", b"x", b"-1", b"18446744073709551615"],
            b"size": [b"", b"x", b"-1", b"18446744073709551615", b"9223372036854775808"], b"uid": [b"", b"abc", b"-1", b"4294967296", b"18446744073709551616"],
            b"gid": [b"", b"abc", b"-1", b"4294967296"], b"mtime": [b"", b"x", b"-", b"1.", b".5", b"-9223372036854775809", b"9223372036854775808", b"1e9", b"1.5.5"],
            b"path": [b"", b"/", b"..", b"a/../b", b"a\x00b", b"x" * 5000], b"linkpath": [b"", b"x" * 5000],
            b"SCHILY.xattr.user.a": [b"", b"\x00", b"v" * 70000], b"LIBARCHIVE.xattr.user.a": [b"", b"!!!!", b"QQ", b"QQ=", b"QQ==", b"=QQ="],
            b"LIBARCHIVE.xattr.user.%": [b"QQ=="], b"LIBARCHIVE.xattr.user.%4": [b"QQ=="], b"LIBARCHIVE.xattr.user.%zz": [b"QQ=="], b"SCHILY.xattr.": [b"v"], b"SCHILY.xattr.user": [b"v"]}
    for key, vals in VALS.items():
        for v in vals:
            for pre in ([], [(b"GNU.sparse.major", b"0"), (b"GNU.sparse.minor", b"1"), (b"GNU.sparse.size", b"4096")]):
                if pre and not key.startswith(b"GNU.sparse"):
                    continue
                cases.append(("tar", "pax %s=%r%s" % (key.decode(), v[:30], " (after sparse 0.1 keys)" if pre else ""), tarmk.pax_header(pre + [(key, v)]) + ftail))
    for rec in recs:
        hdr = tarmk.header(b"pax/h", size=len(rec), typeflag=b"x")
        cases.append(("tar", "pax record %r" % rec[:40], hdr + tarmk.pad(rec) + tail))
    for sz in (0, 1, 65536, 65537, 1 << 33):
        cases.append(("tar", "pax header size %d" % sz, tarmk.header(b"pax/h", size=sz, typeflag=b"x") + tarmk.pad(good) + tail))
        cases.append(("tar", "gnu L size %d" % sz, tarmk.header(b"././@LongLink", size=sz, typeflag=b"L", magic=b"ustar  \0") + tarmk.pad(b"name\0") + tail))
        cases.append(("tar", "gnu K size %d" % sz, tarmk.header(b"././@LongLink", size=sz, typeflag=b"K", magic=b"ustar  \0") + tarmk.pad(b"name\0") + tail))
    # every sequence of <= 3 (thorough 4) PAX records of one extended header over the alphabet of keys the reader knows: the handlers share
    # per-header state (sparse list, set-by-pax mask, name/target ownership), so what matters is which key follows which
    KEYS = [(b"path", b"p/q"), (b"linkpath", b"t"), (b"size", b"3"), (b"uid", b"5"), (b"gid", b"6"), (b"mtime", b"1.5"), (b"atime", b"1"),
            (b"GNU.sparse.size", b"100"), (b"GNU.sparse.numblocks", b"1"), (b"GNU.sparse.offset", b"0"), (b"GNU.sparse.numbytes", b"3"),
            (b"GNU.sparse.map", b"0,3"), (b"GNU.sparse.name", b"sp"), (b"GNU.sparse.major", b"1"), (b"GNU.sparse.minor", b"0"), (b"GNU.sparse.realsize", b"100"),
            (b"SCHILY.xattr.user.a", b"v"), (b"LIBARCHIVE.xattr.user.b", b"dg=="), (b"comment", b"c")]
    for n in range(1, (3 if quick else 4) + 1):
        for seq in itertools.product(range(len(KEYS)), repeat=n):
            cases.append(("tar", "pax keys " + ",".join(KEYS[i][0].decode() for i in seq), tarmk.pax_header([KEYS[i] for i in seq]) + ftail))
    # every sequence of <= 3 meta records (GNU long name / long link, PAX extended and global headers) in front of one entry of each kind
    gnu = b"ustar  \0"
    META = [("L", tarmk.header(b"././@LongLink", size=10, typeflag=b"L", magic=gnu) + tarmk.pad(b"long/name\0")),
            ("K", tarmk.header(b"././@LongLink", size=7, typeflag=b"K", magic=gnu) + tarmk.pad(b"target\0")),
            ("x:path", tarmk.pax_header([(b"path", b"pax/name")])), ("x:linkpath", tarmk.pax_header([(b"linkpath", b"paxtarget")])),
            ("x:size", tarmk.pax_header([(b"size", b"3")])), ("x:mtime", tarmk.pax_header([(b"mtime", b"77")])),
            ("x:sparse", tarmk.pax_header([(b"GNU.sparse.size", b"9"), (b"GNU.sparse.numblocks", b"1"), (b"GNU.sparse.offset", b"0"), (b"GNU.sparse.numbytes", b"3")])),
            ("g:comment", tarmk.pax_header([(b"comment", b"c")], typeflag=b"g"))]
    FINAL = [("file", tarmk.header(b"f", size=3, typeflag=b"0") + tarmk.pad(b"abc")), ("slink", tarmk.header(b"s", typeflag=b"2", linkname=b"f")),
             ("dir", tarmk.header(b"d/", mode=0o755, typeflag=b"5"))]
    for n in range(1, 4):
        for seq in itertools.product(range(len(META)), repeat=n):
            for fname, fin in FINAL:
                cases.append(("tar", "meta records %s then %s" % ("+".join(META[i][0] for i in seq), fname),
                              b"".join(META[i][1] for i in seq) + fin + tarmk.header(b"z", size=1, typeflag=b"0") + tarmk.pad(b"z") + bytes(1024)))
    # GNU 1.0 sparse maps
    for m in (b"", b"0\n", b"1\n", b"1\n0\n", b"65536\n", b"65537\n1\n1\n", b"10000000000000000000\n", b"2\n0\n5\n3\n5\n", b"2\n10\n5\n0\n5\n", b"1\n18446744073709551615\n2\n", b"1\nx\n1\n",
              b"3\n" + b"1\n" * 3, b"1" * 600 + b"\n"):
        p = tarmk.pax_header([(b"GNU.sparse.major", b"1"), (b"GNU.sparse.minor", b"0"), (b"GNU.sparse.name", b"sp"), (b"GNU.sparse.realsize", b"100")])
        body = tarmk.pad(m) + b"DATA" * 3
        cases.append(("tar", "gnu-1.0 map %r" % m[:24], p + tarmk.header(b"GNUSparseFile.0/sp", size=len(body), typeflag=b"0") + tarmk.pad(body) + bytes(1024)))
    # GNU 1.0 maps, position by position: a well-formed map of 1..3 entries in which the k-th number (count, offsets, sizes) is damaged / missing / the
    # archive ends there (the reader builds its list entry by entry; what it has to release depends on where the error strikes)
    for nent in (1, 2, 3):
        nums = [b"%d" % nent] + [x for i in range(nent) for x in (b"%d" % (i * 20), b"5")]
        p = tarmk.pax_header([(b"GNU.sparse.major", b"1"), (b"GNU.sparse.minor", b"0"), (b"GNU.sparse.name", b"sp"), (b"GNU.sparse.realsize", b"100")])
        for k in range(len(nums)):
            for what, rep in (("non-digit", b"x"), ("overflow", b"99999999999999999999999"), ("negative", b"-1"), ("empty", b"")):
                mp = b"".join(n_ + b"\n" for n_ in nums[:k]) + rep + b"\n" + b"".join(n_ + b"\n" for n_ in nums[k + 1:])
                for body, how in ((tarmk.pad(mp) + b"D" * 40, "map padded to a record"), (mp + b"D" * 40, "map not padded")):
                    cases.append(("tar", "gnu-1.0 map of %d entries, number %d %s, %s" % (nent, k, what, how), p + tarmk.header(b"GNUSparseFile.0/sp", size=len(body), typeflag=b"0") + tarmk.pad(body) + bytes(1024)))
            body = tarmk.pad(b"".join(n_ + b"\n" for n_ in nums[:k])) if k else b""
            cases.append(("tar", "gnu-1.0 map of %d entries ends before number %d" % (nent, k), p + tarmk.header(b"GNUSparseFile.0/sp", size=len(body), typeflag=b"0") + tarmk.pad(body) + bytes(1024)))
            cases.append(("tar", "gnu-1.0 map of %d entries, archive ends before number %d" % (nent, k), p + tarmk.header(b"GNUSparseFile.0/sp", size=4096, typeflag=b"0") + body))
    # old GNU sparse: overlapping / descending / beyond-size entries, huge realsize (bounded to 4 GiB + 1)
    for regs, real in (([(0, 512), (256, 512)], 2048), ([(1024, 512), (0, 512)], 2048), ([(4096, 512)], 100), ([(0, 512)], (1 << 32) + 1), ([((1 << 33), 8)], 16), ([(0, 0)], 0)):
        tl = bytearray(167)
        sp = b"".join(tarmk.octal(o, 12) + tarmk.octal(l, 12) for o, l in regs[:4])
        tl[41:41 + len(sp)] = sp
        tl[138:150] = tarmk.num(real, 12, "octal")
        stored = b"D" * sum(l for _, l in regs if l < 4096)
        cases.append(("tar", "gnu-old sparse %r real %d" % (regs, real), tarmk.header(b"sp", size=len(stored), typeflag=b"S", magic=b"ustar  \0", tail=bytes(tl)) + tarmk.pad(stored) + bytes(1024)))
    # compressed wrappers, corrupted (shared with C15): every 7th byte of the compressed stream
    base = tar_bases()[1][1]
    for cname, comp in (("gzip", lambda d: gzip.compress(d, mtime=0)), ("xz", lzma.compress), ("bzip2", bz2.compress)):
        cd = comp(base)
        for off in range(0, len(cd), 7 if quick else 2):
            d = bytearray(cd)
            d[off] ^= 0x55
            cases.append(("tar", "%s-wrapped, byte %d flipped" % (cname, off), bytes(d)))
        for ln in range(0, len(cd), 11 if quick else 3):
            cases.append(("tar", "%s-wrapped, truncated to %d" % (cname, ln), cd[:ln]))
        # something follows the end of the first compressed stream: garbage of every short length, a second (valid, empty, damaged, truncated) member
        for g in (b"\0", b"\xff", b"G" * 8, bytes(512), b"garbage " * 100, cd[:1], cd[:3], cd[:10]):
            cases.append(("tar", "%s-wrapped, followed by %d bytes %r" % (cname, len(g), g[:10]), cd + g))
        half = len(base) // 1024 * 512
        two = comp(base[:half]) + comp(base[half:])
        cases.append(("tar", "%s-wrapped, two members" % cname, two))
        cases.append(("tar", "%s-wrapped, second member empty" % cname, cd + comp(b"")))
        cases.append(("tar", "%s-wrapped, empty member first" % cname, comp(b"") + cd))
        c2 = comp(base[half:])
        for ln in range(1, len(c2), 13 if quick else 3):
            cases.append(("tar", "%s-wrapped, second member truncated to %d" % (cname, ln), comp(base[:half]) + c2[:ln]))
        for off in range(0, len(c2), 17 if quick else 4):
            d = bytearray(c2)
            d[off] ^= 0x55
            cases.append(("tar", "%s-wrapped, second member byte %d flipped" % (cname, off), comp(base[:half]) + bytes(d)))
    return cases


def hardlink_graph_cases(tier):
    """all graphs of n<=3 link entries with targets in {other links, self, file, dir, missing} x all orders"""
    E = tarcases.E
    cases = []
    nmax = 3
    for n in range(1, nmax + 1):
        nodes = [b"l%d" % i for i in range(n)]
        tchoices = nodes + [b"f", b"d", b"missing"]
        for tg in itertools.product(tchoices, repeat=n):
            links = [E(nodes[i], "link", target=tg[i]) for i in range(n)]
            fixed = [E(b"f", "file", content=b"target"), E(b"d", "dir")]
            orders = list(itertools.permutations(links))
            if tier == "quick" and n == 3:
                orders = orders[:2]
            for perm in orders:
                for front in (True, False):
                    ents = (fixed + list(perm)) if front else (list(perm) + fixed)
                    cases.append(("tar-graph", "links %s %s" % ([(e["path"].decode(), e["target"].decode()) for e in perm], "after targets" if front else "before targets"),
                                  tarmk.archive(ents, "ustar"), ents))
    return cases


PACK_BASE = b"""# comment
dir /d 0755 0 0
file /d/f 0644 1 2 input.bin
file "/d/with space" 0600 0 0 input.bin
slink /d/s 0777 0 0 f
link /d/h 0 0 0 /d/f
nod /c 0600 0 0 c 5 1
pipe /p 0644 0 0
sock /s 0644 0 0
glob /g * * * -type f -name "*.bin" .
"""
SORT_BASE = b"""# sort
-5 d/f
3 [glob] d/*
0 [dont_compress,nosparse] "d/with space"
"""
XATTR_BASE = b"""# file: d/f
user.a="text \\"quoted\\" \\\\ \\012"
user.b=0xCAFE
user.c=0sSGVsbG8=

# file: d
security.selinux="x"
"""
TOKEN_ALPHABET = [None, b'""', b'"unterminated', b"trail\\", b'"\\x"', b"T" * 70000, b"-1", b"4294967296", b"18446744073709551616", b"08", b"0x10", b"*", b"/", b"..", b"../x", b'"a b"', b"'"]


def text_mutations(base, quick):
    """token level + line level + char level mutations of a text input"""
    out = []
    lines = base.split(b"\n")
    for li, line in enumerate(lines):
        if not line.strip():
            continue
        toks = re.findall(rb'"(?:[^"\\]|\\.)*"|\S+', line)
        # token replaced / removed
        for ti in range(len(toks)):
            for rep in TOKEN_ALPHABET:
                nt = toks[:ti] + ([rep] if rep is not None else []) + toks[ti + 1:]
                nl = b" ".join(nt)
                out.append(("line %d token %d -> %r" % (li + 1, ti, (rep or b"<removed>")[:16]), b"\n".join(lines[:li] + [nl] + lines[li + 1:])))
        # line duplicated / removed / moved to the end
        out.append(("line %d duplicated" % (li + 1), b"\n".join(lines[:li] + [line, line] + lines[li + 1:])))
        out.append(("line %d removed" % (li + 1), b"\n".join(lines[:li] + lines[li + 1:])))
        out.append(("line %d moved last" % (li + 1), b"\n".join(lines[:li] + lines[li + 1:] + [line])))
    # char level
    step = 3 if quick else 1
    for pos in range(0, len(base), step):
        for ch in ((b'"', b"\\", b" ", b"\t", b"#", b"\xff", b"\n", b"\0") if not quick else (b'"', b"\\", b"\xff")):
            out.append(("char %d -> %r" % (pos, ch), base[:pos] + ch + base[pos + 1:]))
            if not quick:
                out.append(("char %r inserted at %d" % (ch, pos), base[:pos] + ch + base[pos:]))
    # truncation at every offset, missing final newline
    for ln in range(0, len(base), step):
        out.append(("truncated to %d" % ln, base[:ln]))
    return out


def gen_cases(tier):
    quick = tier == "quick"
    cases = []
    for what, data in text_mutations(PACK_BASE, quick):
        cases.append(("pack", what, dict(pack=data)))
    for what, data in text_mutations(SORT_BASE, quick):
        cases.append(("sort", what, dict(sort=data)))
    for what, data in text_mutations(XATTR_BASE, quick):
        cases.append(("xattr", what, dict(xattr=data)))
    # keyword x every other keyword
    kws = [b"dir", b"file", b"slink", b"link", b"nod", b"pipe", b"sock", b"glob", b"bogus", b""]
    for li, line in enumerate(PACK_BASE.split(b"\n")):
        t = line.split(b" ", 1)
        if len(t) == 2 and t[0] in kws:
            for kw in kws:
                if kw != t[0]:
                    cases.append(("pack", "line %d keyword -> %r" % (li + 1, kw), dict(pack=PACK_BASE.replace(line, kw + b" " + t[1]))))
    # glob lines with every option missing its argument / unknown options / option terminator
    for g in (b"glob /g * * * -type", b"glob /g * * * -name", b"glob /g * * * -path", b"glob /g * * * -type x .", b"glob /g * * * -bogus .", b"glob /g * * * -- -dash",
              b"glob /g * * * -type f", b"glob /g * * *", b"glob /g 0644 0 0 -nonrecursive -xdev -mount -keeptime -nohardlinks .", b"glob / * * * -name \"unterminated .",
              b"glob /g * * * -name '*.bin' .", b"glob /g * * * nonexistent-dir", b"glob /g * * * -type d -type f -type l -type s -type p -type b -type c ."):
        cases.append(("pack", "glob line %r" % g, dict(pack=b"dir /g 0755 0 0\n" + g + b"\n")))
        cases.append(("pack-bare", "glob line %r, pack file given by bare name without --pack-dir" % g, dict(pack=b"dir /g 0755 0 0\n" + g + b"\n")))
    cases.append(("pack-bare", "valid pack file given by bare name without --pack-dir", dict(pack=PACK_BASE)))
    # hard-link graphs through 'link' lines
    for n in (1, 2, 3):
        nodes = [b"l%d" % i for i in range(n)]
        for tg in itertools.product(nodes + [b"f", b"d", b"missing"], repeat=n):
            body = b"".join(b"link /%s 0 0 0 /%s\n" % (nodes[i], tg[i]) for i in range(n))
            cases.append(("pack-graph", "link lines %s" % [(nodes[i].decode(), tg[i].decode()) for i in range(n)], dict(pack=b"file /f 0644 0 0 input.bin\ndir /d 0755 0 0\n" + body)))
            if not quick or n < 3:
                cases.append(("pack-graph", "link lines %s before targets" % [(nodes[i].decode(), tg[i].decode()) for i in range(n)], dict(pack=body + b"file /f 0644 0 0 input.bin\ndir /d 0755 0 0\n")))
    return cases


def evaluate(case):
    kind, what, payload = case[0], case[1], case[2]
    wd = tempfile.mkdtemp(prefix="c", dir=SCR)
    try:
        img = os.path.join(wd, "out.sqfs")
        stdin = None
        cwd = wd
        if kind in ("tar", "tar-graph"):
            argv = [T["tar2sqfs"], "-q", "-c", "gzip", "-b", "4096", img]
            stdin = payload
        else:
            os.makedirs(os.path.join(wd, "in", "sub"))
            for p in ("input.bin", "sub/x.bin", "y.txt"):
                open(os.path.join(wd, "in", p), "wb").write(b"input data " * 10)
            valid = dict(pack=PACK_BASE, sort=SORT_BASE, xattr=XATTR_BASE)
            valid.update(payload)
            for k, v in valid.items():
                open(os.path.join(wd, "in" if kind == "pack-bare" else "", k + ".txt"), "wb").write(v)
            if kind == "pack-bare":
                cwd = os.path.join(wd, "in")
                argv = [T["gensquashfs"], "-q", "-c", "gzip", "-b", "4096", "-F", "pack.txt", img]
            else:
                argv = [T["gensquashfs"], "-q", "-c", "gzip", "-b", "4096", "-F", os.path.join(wd, "pack.txt"), "-D", os.path.join(wd, "in"),
                        "-S", os.path.join(wd, "sort.txt"), "-A", os.path.join(wd, "xattr.txt"), img]
        r = run_tool(argv, stdin=stdin, timeout=30, cwd=cwd)
        if r.timeout and HANGS.value < 6:
            # hang rule: re-run alone with a much longer limit, after removing what the killed run left behind.
            # Once six hangs have been confirmed this way, further 30 s timeouts are reported without the long re-run
            # (a tree that hangs on a whole family would otherwise cost 5 minutes per member).
            try:
                os.unlink(img)
            except OSError:
                pass
            r = run_tool(argv, stdin=stdin, timeout=300, cwd=cwd)
            if r.timeout:
                with HANGS.get_lock():
                    HANGS.value += 1

        def viol(fp, msg):
            f = {"case.json": json.dumps(dict(kind=kind, what=what, argv=[os.path.basename(argv[0])] + [a.replace(wd, "<wd>") for a in argv[1:]]))}
            if stdin is not None:
                f["input.tar"] = stdin
            else:
                for k, v in payload.items():
                    f[k + ".txt"] = v
            return dict(status="violation", fp=fp, what="%s input, %s\n%s" % (kind, what, msg), files=f)
        tool = os.path.basename(argv[0])
        site = kind if kind not in ("tar", "tar-graph") else "tar"
        if r.timeout:
            return viol("C07|hang|%s|%s" % (tool, "hard-link graph" if "graph" in kind else site), "does not terminate within 300 s (30 s once six hangs were confirmed with the 300 s limit)")
        if r.crashed:
            return viol("C07|%s|%s" % (r.crash_fingerprint(), tool), r.err.decode("latin1")[-2500:])
        exists = os.path.exists(img)
        if r.rc != 0:
            if exists:
                return viol("C07|failed-but-output-left|%s|%s" % (tool, site), "exit %d but the output file exists\nstderr: %s" % (r.rc, r.err.decode("latin1")[-300:]))
            if not r.err.strip():
                return viol("C07|failed-without-diagnostic|%s|%s" % (tool, site), "exit %d with empty stderr" % r.rc)
            return dict(status="ok", out="refused")
        if not exists:
            return viol("C07|exit0-without-output|%s" % tool, "exit 0 but no output file")
        im, err = packcheck.decode(img)
        if im is None:
            return viol("C07|exit0-undecodable|%s|%s" % (tool, re.sub(r"\d+", "N", err)[:50]), err)
        if im.violations:
            return viol("C07|exit0-invalid-image|%s|%s" % (tool, im.violations[0][0]), str(im.violations[:3]))
        if kind == "tar-graph":
            exp = tarmk.expected_tree(case[3])
            if exp is None:
                return viol("C07|accepted-bad-link-graph|%s" % tool, "exit 0 although a hard link is dangling, cyclic or points at a directory")
            d = treegen.diff_trees(exp, sqfsck.canon_tree(im))
            if d:
                return viol("C07|link-graph-tree|%s" % tool, "tree differs from the archive's model: %s" % d[:3])
        return dict(status="ok", out=sha_file(img))
    finally:
        shutil.rmtree(wd, ignore_errors=True)


def main():
    global SCR
    cr = CheckRun("C07", "exploration", default_budget=(480, 3300))
    with build.Scratch("C07") as sd:
        SCR = sd
        T.update(build.build_tools(build.variant("asan"), os.path.join(sd, "bin"), tools=["tar2sqfs", "gensquashfs"]))
        if cr.replay:
            c = json.load(open(os.path.join(cr.replay, "case.json")))
            if os.path.exists(os.path.join(cr.replay, "input.tar")):
                print(evaluate((c["kind"] if c["kind"] != "tar-graph" else "tar", c["what"], open(os.path.join(cr.replay, "input.tar"), "rb").read())))
            else:
                pl = {k: open(os.path.join(cr.replay, k + ".txt"), "rb").read() for k in ("pack", "sort", "xattr") if os.path.exists(os.path.join(cr.replay, k + ".txt"))}
                print(evaluate((c["kind"], c["what"], pl)))
            return 1
        # self-check: the unmutated inputs are accepted
        for c in [("pack", "valid", {})] + [("tar", "valid " + n, d) for n, d in tar_bases()]:
            r = evaluate(c)
            if r["status"] != "ok" or r["out"] == "refused":
                raise RuntimeError("valid base input is not accepted: %s %s" % (c[1], r))
        cases = tar_cases(cr.tier) + hardlink_graph_cases(cr.tier) + gen_cases(cr.tier)
        cr.coverage["planned_cases"] = len(cases)
        n_eval = 0
        kinds, outs = {}, set()
        chunk = 4000
        for off in range(0, len(cases), chunk):
            if cr.time_left() < 20:
                cr.cap("deadline after %d of %d" % (off, len(cases)))
                break
            for c, r in zip(cases[off:off + chunk], pmap(evaluate, cases[off:off + chunk])):
                n_eval += 1
                kinds[c[0]] = kinds.get(c[0], 0) + 1
                if r["status"] == "violation":
                    cr.violation(r["fp"], r["what"], files=r["files"], replay_sh="python3 /verif/checks/C07.py --replay \"$PWD\"")
                    continue
                outs.add((c[0], r["out"]) if r["out"] != "refused" else (c[0], "refused", c[1].split("=")[0][:30]))
        for i in (len(cases) // 9, len(cases) // 2, len(cases) - 5):
            cr.sample({"kind": cases[i][0], "mutation": cases[i][1]})
        cr.coverage.update(evaluations=n_eval, distinct_nontrivial=len(outs), cases_by_kind=kinds,
                           rule="tar: 8 base archives (v7, ustar, GNU long names, old GNU sparse, PAX with xattrs/ids, PAX sparse 1.0/0.1/0.0) x every header field of every header x "
                                "{empty, all-7, all-9, -1, base-256 max/min, 0xFF, no terminator, space padded, non-digit, path tricks}, typeflag x 256, bad checksums, truncation at every "
                                "64th (quick) / every (thorough) offset, every byte of the first 1.5 KiB x {^1,^0x80,0,0xFF}, hand-made PAX records / GNU L,K sizes / 1.0 sparse maps / old sparse "
                                "entries, corrupted and truncated gzip/xz/bzip2 wrappers; all hard-link graphs on <=3 link entries with targets in {links, self, file, directory, missing} x entry "
                                "orders. gensquashfs: token-level (17 replacements per token), line-level and character-level mutation and every truncation of valid pack, sort and xattr files, "
                                "keyword swaps, glob lines with missing arguments, pack file given by bare name, link-line graphs. distinct = distinct (kind, outcome image or refusal class). "
                                "Oracle: terminates (30 s, re-run alone 300 s); no ASan report/signal; exit 0 => image exists, decodes, passes the C03 validator (and equals the model for link graphs); "
                                "exit != 0 => non-empty stderr and no output file.")
        cr.assumptions += ["declared sparse sizes bounded to 4 GiB + 1 (processing is linear in the declared size)", "coverage-guided mutation replaced by exhaustive deviation-1 families"]
    return cr.finish()


if __name__ == "__main__":
    main_wrapper(main)
