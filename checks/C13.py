#!/usr/bin/env python3
"""C13 — fail-stop: every single fault position k (k-th write-like, read-like, truncate, open, close, dup, lseek, fsync call;
k-th allocation by project code) x fault kind is injected into end-to-end runs of the four tools."""
import os, sys, json, shutil, tempfile, errno
sys.path.insert(0, os.path.dirname(os.path.dirname(os.path.abspath(__file__))))
from vlib.common import *
from vlib import build, envscn, envrun

SC = {}
KINDS = {
    "write": [("fail", errno.ENOSPC), ("fail", errno.EIO), ("eintr+fail", errno.EIO)],
    "pwrite": [("fail", errno.ENOSPC), ("fail", errno.EIO), ("eintr+fail", errno.EIO)],
    "read": [("fail", errno.EIO)],
    "pread": [("fail", errno.EIO)],
    "trunc": [("fail", errno.EIO)],
    "open": [("fail", errno.ENOENT), ("fail", errno.EMFILE)],
    "lseek": [("fail", errno.EIO)],
    "fsync": [("fail", errno.EIO)],
    "dup": [("fail", errno.EMFILE)],
    "alloc": [("fail", errno.ENOMEM)],
    "mmap": [("fail", errno.ENOMEM)],
}
QUICK_KINDS = {k: v[:1] for k, v in KINDS.items()}


GENERIC = {"stdio_write_at", "stdio_read_at", "write_all", "precache", "alloc_flex", "alloc_array", "file_append", "stdio_truncate",
           "array_init", "array_set_capacity", "array_append", "sqfs_native_file_open", "sqfs_native_file_duplicate", "sqfs_open_native_file",
           "sqfs_native_file_seek", "sqfs_native_file_get_size", "file_get_buffered_data", "realize_sparse", "file_flush", "mem_pool_allocate",
           "sqfs_native_file_close", "sqfs_istream_read", "sqfs_istream_skip", "sqfs_istream_splice"}
import re
FRAME = re.compile(r"#\d+ 0x[0-9a-f]+ in (\S+) (\S+)")


def call_site(sname, plan):
    """re-run with a stack trace printed at the deviation point; returns 'func' or 'func<in:sqfs_writer_init'"""
    s = SC[sname]
    first = plan.split(";")[0] if "eintr" not in plan else plan.split(";")[1]
    r = s.run(plan=first, want_log=False, timeout=60, env={"VERIF_ENV_TRACE": "1"})
    txt = r["err"].decode("latin1")
    i = txt.find("[envwrap] deviation")
    j = txt.find("[envwrap] end of trace")
    if i < 0:
        return "?"
    frames = [(m.group(1), m.group(2)) for m in FRAME.finditer(txt[i:j if j > i else None])]
    proj = [f for f, loc in frames if build.REPO + "/" in loc]
    site = next((f for f in proj if f not in GENERIC), proj[0] if proj else "?")
    ctx = ""
    for marker in ("sqfs_writer_init", "sqfs_writer_finish", "sqfs_writer_cleanup", "process_command_line"):
        if marker in proj and marker != site:
            ctx = "<in:" + marker
            break
    return site + ctx


import multiprocessing as _mp
HANGS = _mp.Value("i", 0)


def run_plan(a):
    sname, plan = a
    s = SC[sname]
    r = s.run(plan=plan, want_log=False, timeout=20)
    if r["timeout"]:
        r = s.run(plan=plan, want_log=False, timeout=120) if HANGS.value < 3 else r
        if r["timeout"]:
            with HANGS.get_lock():
                HANGS.value += 1
    r.pop("log", None)
    r["err"] = r["err"][-2500:]
    r["judged"] = judge_static(sname, plan, r)
    if r["judged"][0]:
        r["site"] = call_site(sname, plan)
    return sname, plan, r


def plans_for(log, kinds, alloc_count):
    out = []
    counts = {}
    for l in log:
        counts[l[0]] = max(counts.get(l[0], 0), l[1])
    counts["alloc"] = alloc_count
    for cls, ks in kinds.items():
        n = counts.get(cls, 0)
        for k in range(1, n + 1):
            for kind, e in ks:
                if kind == "fail":
                    out.append("fail:%s#%d=%d" % (cls, k, e))
                else:
                    out.append("eintr:%s#%d;fail:%s#%d=%d" % (cls, k, cls, k + 1, e))
    return out, counts


def main():
    cr = CheckRun("C13", "fault_enumeration", default_budget=(480, 2700))
    with build.Scratch("C13") as sd:
        # serial variant: allocation indices are reproducible (no worker threads); all file I/O is on the main thread anyway
        tools = build.build_tools(build.variant("envwrap_serial"), os.path.join(sd, "bin"), tools=["gensquashfs", "tar2sqfs", "rdsquashfs", "sqfs2tar"])
        scns = envscn.build_scenarios(tools, os.path.join(sd, "scn"), cr.tier)
        for s in scns:
            SC[s.name] = s
        if cr.replay:
            case = json.load(open(os.path.join(cr.replay, "case.json")))
            s = SC[case["scenario"]]
            b = s.run(plan="")
            r = s.run(plan=case["plan"])
            print("baseline rc=%d\nplan %s: rc=%d output_exists=%s same_output=%s crashed=%s\n%s" % (
                b["rc"], case["plan"], r["rc"], r["out_exists"], r["snap"] == b["snap"], r["crashed"], r["err"].decode("latin1")[-1500:]))
            return 1
        kinds = QUICK_KINDS if cr.quick else KINDS
        base, jobs, per = {}, [], []
        for s in scns:
            b1 = s.run(plan="", want_log=True)
            b2 = s.run(plan="", want_log=True)
            if b1["rc"] != 0 or b1["crashed"]:
                raise RuntimeError("fault-free run of scenario %s fails rc=%d %s" % (s.name, b1["rc"], b1["err"].decode("latin1")[-600:]))
            if [l[:2] for l in b1["log"]] != [l[:2] for l in b2["log"]] or b1["snap"] != b2["snap"]:
                cr.cap("scenario %s: call log differs between two fault-free runs; skipped" % s.name)
                continue
            # number of allocations: ask the shim by failing an impossible index and reading the counter from the log is not available;
            # count by bisection-free trick: run with failall at a huge index and count 'alloc' lines -> the shim logs only failures,
            # so derive the count from a dedicated counting run
            na = count_allocs(s)
            base[s.name] = b1
            pl, counts = plans_for(b1["log"], kinds, na)
            for p in pl:
                jobs.append((s.name, p))
            per.append(dict(scenario=s.name, calls={k: v for k, v in counts.items() if k in kinds}, fault_plans=len(pl)))

        n_eval = 0
        distinct = set()
        outcomes = {}
        BASE.update(base)

        BASE.update(base)

        def judge(sname, plan, r):
            fp, what = r["judged"]
            if fp:
                site = r.get("site", "?")
                if "partial-output-left" in fp:
                    # root cause is where the cleanup is missing, not where the fault was injected
                    stage = "in:sqfs_writer_init" if "<in:sqfs_writer_init" in site else "after-init"
                    fp = fp.split("|" + SC[sname].tool + "|")[0] + "|" + SC[sname].tool + "|" + stage
                else:
                    fp = fp.replace("@SITE", "@" + site)
                what += "\nfault injected at: " + site
            return fp, what

        def judge_unused(sname, plan, r):
            s = SC[sname]
            b = base[sname]
            cls = plan.split(":")[1].split("#")[0]
            if r["crashed"]:
                return "C13|crash|%s|%s" % (s.tool, r["crash_fp"]), "crashed (signal / sanitizer / abort)\n%s" % r["err"].decode("latin1")[-2000:]
            if r["timeout"]:
                return "C13|hang|%s|%s" % (s.tool, cls), "did not terminate"
            if r["rc"] == 0:
                if r["snap"] != b["snap"]:
                    return "C13|exit0-different-output|%s|%s" % (s.tool, cls), "exit status 0 but the output differs from the fault-free run"
                return None, "ok-same-output"
            if not r["err"].strip():
                return "C13|no-diagnostic|%s|%s" % (s.tool, cls), "exit status %d without any diagnostic on stderr" % r["rc"]
            if s.packer and r["out_exists"]:
                where = "relative output path + --pack-dir" if s.relative_out else "absolute output path"
                return "C13|partial-output-left|%s|%s|%s" % (s.tool, "relative-out" if s.relative_out else "abs-out", stage_of(plan, b)), \
                    "exit status %d but the partial output file is still there (%s)\nstderr: %s" % (r["rc"], where, r["err"].decode("latin1")[-400:])
            return None, "failed-cleanly"

        def stage_of(plan, b):
            # coarse stage: was the fault before the first data was written (init) or later
            cls = plan.split(":")[1].split("#")[0]
            k = int(plan.split("#")[1].split("=")[0].split(";")[0])
            if cls in ("pwrite", "write") and k == 1:
                return "first-write(init)"
            if cls == "open":
                return "open"
            return cls

        chunk = 4000
        for off in range(0, len(jobs), chunk):
            if cr.expired():
                cr.cap("deadline after %d of %d plans" % (off, len(jobs)))
                break
            for sname, plan, r in pmap(run_plan, jobs[off:off + chunk]):
                n_eval += 1
                distinct.add((sname, plan))
                fp, what = judge(sname, plan, r)
                if fp:
                    cr.violation(fp, "scenario %s, plan %s\n%s" % (sname, plan, what),
                                 files={"case.json": json.dumps(dict(scenario=sname, plan=plan))},
                                 replay_sh="python3 /verif/checks/C13.py --replay \"$PWD\"")
                else:
                    outcomes[what] = outcomes.get(what, 0) + 1
        for p in per[:5]:
            cr.sample(p)
        cr.sample({"example_plans": [j[1] for j in jobs[:2]] + [j[1] for j in jobs[-2:]]})
        cr.coverage.update(evaluations=n_eval, distinct_nontrivial=len(distinct), scenarios=per, outcomes=outcomes,
                           rule="Per scenario the fault-free log gives the number of calls per class; every call index k of every class (write, pwrite, read, pread, "
                                "ftruncate, open/openat, lseek, fsync, dup, allocation by project code, mmap) is failed once with each fault kind of the tier "
                                "(ENOSPC/EIO/EINTR-then-EIO/ENOENT/EMFILE/NULL). Packer scenarios include an absolute and a relative output path (with --pack-dir). "
                                "distinct = distinct (scenario, plan). Oracle: no crash; exit!=0 with a diagnostic and (packers) no file at the output path the user named, "
                                "or exit 0 with output identical to the fault-free run.")
        cr.assumptions += ["serial block processor build (NO_THREAD_IMPL) so that allocation indices are reproducible; pool-level failure propagation under threads is covered by C09",
                           "allocations inside libz/liblzma/libzstd are not failed (only calls made by project objects are wrapped)",
                           "early EOF of a tar stream is not a fault (indistinguishable from a shorter input)"]
    return cr.finish()


BASE = {}


def judge_static(sname, plan, r):
    s = SC[sname]
    b = BASE[sname]
    cls = plan.split(":")[1].split("#")[0]
    tag = "%s|%s@SITE" % (s.tool, cls)
    if r["crashed"]:
        return "C13|crash|%s|%s" % (tag, r["crash_fp"]), "crashed (signal / sanitizer / abort)\n%s" % r["err"].decode("latin1")[-2000:]
    if r["timeout"]:
        return "C13|hang|%s" % tag, "did not terminate"
    if r["rc"] == 0:
        if r["snap"] != b["snap"]:
            return "C13|exit0-different-output|%s" % tag, "exit status 0 but the output differs from the fault-free run"
        return None, "ok-same-output"
    if not r["err"].strip():
        return "C13|no-diagnostic|%s" % tag, "exit status %d without any diagnostic on stderr" % r["rc"]
    if s.packer and r["out_exists"]:
        where = "relative output path + --pack-dir" if s.relative_out else "absolute output path"
        return "C13|partial-output-left|%s|%s" % ("relative-out" if s.relative_out else "abs-out", tag), \
            "exit status %d but the partial output file is still there (%s)\nstderr: %s" % (r["rc"], where, r["err"].decode("latin1")[-400:])
    return None, "failed-cleanly"


def count_allocs(s):
    """number of project allocations in the fault-free run: the shim logs a failed allocation with its index;
    fail every allocation from a very large index on => none fail; so bisect the largest k whose failure is logged."""
    lo, hi = 0, 1
    def fails(k):
        r = s.run(plan="fail:alloc#%d" % k, want_log=True, timeout=60)
        return any(l[0] == "alloc" for l in r["log"])
    while fails(hi):
        lo, hi = hi, hi * 2
        if hi > 1 << 22:
            break
    # largest k in [lo, hi) that is reached
    while hi - lo > 1:
        mid = (lo + hi) // 2
        if fails(mid):
            lo = mid
        else:
            hi = mid
    return lo


if __name__ == "__main__":
    main_wrapper(main)
