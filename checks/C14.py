#!/usr/bin/env python3
"""C14 — crash points: the packer is killed immediately before every output-file system call (every prefix of the
sequence of writes/truncates); the leftover file must be rejected by every reader or be the complete image."""
import os, sys, json, shutil, tempfile, hashlib
sys.path.insert(0, os.path.dirname(os.path.dirname(os.path.abspath(__file__))))
from vlib.common import *
from vlib import build, treegen, sqfsck, packcheck, envrun, scenarios, tarmk, tarcases
from vlib.treegen import E, content_pattern

SCR = None
T = {}


def scenarios_for(tier):
    S = []
    rich, small, frag = scenarios.spec_rich(), scenarios.spec_small(), scenarios.spec_frag()
    S.append(("gensquashfs", "small/gzip", small, dict(comp="gzip", bs=4096)))
    S.append(("gensquashfs", "rich/lz4/-e", rich, dict(comp="lz4", bs=4096, e=1)))
    S.append(("tar2sqfs", "rich/gzip", rich, dict(comp="gzip", bs=4096)))
    # which tables the super block refers to decides what has to be on disk before it: fragment table x xattr table x export table
    B = 4096
    for fr in (0, 1):
        for xa in (0, 1):
            for ex in (0, 1):
                spec = [E(b"d", "dir", 0o755), E(b"d/a", "file", content=content_pattern("a", B + (100 if fr else 0)), **({"xattrs": {b"user.k": b"v" * 20}} if xa else {}))]
                lab = "tables/%s%s%s" % ("frag" if fr else "nofrag", "+xattr" if xa else "", "+export" if ex else "")
                S.append(("gensquashfs", lab, spec, dict(comp=("gzip", "lz4", "zstd", "xz")[(fr * 4 + xa * 2 + ex) % 4], bs=B, e=ex)))
                S.append(("tar2sqfs", lab, spec, dict(comp=("xz", "zstd", "lz4", "gzip")[(fr * 4 + xa * 2 + ex) % 4], bs=B, e=ex)))
    # an output file that already exists and holds a larger valid image (-f): stale bytes behind the crash point must not complete an image
    S.append(("gensquashfs", "overwrite-larger-image", small, dict(comp="gzip", bs=4096, preexisting=1)))
    S.append(("tar2sqfs", "overwrite-larger-image", small, dict(comp="gzip", bs=4096, preexisting=1)))
    # the packer truncates the output when a file just written duplicates earlier blocks (also overlapping its own start): the final image must still be the input
    X, Y = content_pattern("X-incompressible", B), content_pattern("Y-incompressible", B)
    dd = [E(b"a1", "file", content=X), E(b"a2", "file", content=X * 3), E(b"a3", "file", content=X * 2 + b"tail"), E(b"b1", "file", content=X + Y),
          E(b"b2", "file", content=(X + Y) * 2 + X), E(b"b3", "file", content=X + Y), E(b"c", "file", content=Y * 2 + b"c" * 50), E(b"d", "file", content=X * 5),
          # holes: a file that starts with a hole right behind a file with data, a hole in the middle, a trailing hole
          E(b"e_hole_first", "file", content=bytes(B) + Y), E(b"f_hole_mid", "file", content=X + bytes(B) + Y), E(b"g_hole_last", "file", content=Y + bytes(B)), E(b"h", "file", content=Y + X)]
    S.append(("gensquashfs", "dedup-truncate", dd, dict(comp="gzip", bs=B)))
    S.append(("tar2sqfs", "dedup-truncate", dd, dict(comp="lz4", bs=B)))
    if tier == "thorough":
        # every entry template of the C01 generator on its own, both tools
        for tname, ents in treegen.templates(4096):
            if treegen.representable(ents) or any(e["type"] == "sock" for e in ents):
                continue
            S.append(("gensquashfs", "template/" + tname, ents, dict(comp="gzip", bs=4096)))
            S.append(("tar2sqfs", "template/" + tname, ents, dict(comp="zstd", bs=4096)))
        S.append(("gensquashfs", "rich/xz", rich, dict(comp="xz", bs=4096)))
        S.append(("gensquashfs", "frag/zstd/-j4", frag, dict(comp="zstd", bs=4096, j=4)))
        S.append(("gensquashfs", "frag/gzip/-T/-e", frag, dict(comp="gzip", bs=4096, T=1, e=1)))
        S.append(("tar2sqfs", "frag/xz/-e", frag, dict(comp="xz", bs=4096, e=1)))
        S.append(("tar2sqfs", "small/lz4", small, dict(comp="lz4", bs=4096)))
        S.append(("gensquashfs", "rich/gzip/packdir", rich, dict(comp="gzip", bs=4096, packdir=1)))
    return S


def prepare(tool, spec, cfg, wd):
    """returns (argv without output, stdin bytes or None)"""
    os.makedirs(wd, exist_ok=True)
    if tool == "gensquashfs":
        if cfg.get("packdir"):
            treegen.render_dir(spec, os.path.join(wd, "root"))
            return [T["gensquashfs"]] + packcheck.cfg_args(cfg) + ["-D", os.path.join(wd, "root"), "-x"], None
        pf = treegen.render_packfile(spec, wd)
        open(os.path.join(wd, "pack.txt"), "wb").write(pf)
        argv = [T["gensquashfs"]] + packcheck.cfg_args(cfg) + ["-F", os.path.join(wd, "pack.txt"), "-D", os.path.join(wd, "in")]
        xf = treegen.render_xattr_file(spec)
        if xf:
            open(os.path.join(wd, "xattr.txt"), "wb").write(xf)
            argv += ["-A", os.path.join(wd, "xattr.txt")]
        return argv, None
    else:
        if any(e.get("xattrs") for e in spec):
            ents = [tarcases.E(e["path"], e["type"], **{k: v for k, v in e.items() if k not in ("path", "type")}) for e in spec]
            return [T["tar2sqfs"]] + packcheck.cfg_args(cfg), tarmk.archive(ents, "pax")
        return [T["tar2sqfs"]] + packcheck.cfg_args(cfg), scenarios.make_tar(spec)


def readers_verdict(img, full_tree):
    """returns (verdicts dict reader->'accept'|'reject'|'crash:..', tree_equal or None)"""
    v = {}
    r = run_tool_hangcheck([T["rdsquashfs"], "-d", img], timeout=20)
    v["rdsquashfs -d"] = "crash:" + r.crash_fingerprint() if r.crashed else "hang" if r.timeout else ("accept" if r.rc == 0 else "reject")
    r = run_tool_hangcheck([T["rdsquashfs"], "-l", "/", img], timeout=20)
    v["rdsquashfs -l"] = "crash:" + r.crash_fingerprint() if r.crashed else "hang" if r.timeout else ("accept" if r.rc == 0 else "reject")
    r = run_tool_hangcheck([T["sqfs2tar"], img], timeout=20)
    v["sqfs2tar"] = "crash:" + r.crash_fingerprint() if r.crashed else "hang" if r.timeout else ("accept" if r.rc == 0 else "reject")
    im, err = packcheck.decode(img)
    v["decoder"] = "accept" if im is not None else "reject"
    eq = None
    if im is not None:
        eq = sqfsck.canon_tree(im) == full_tree
    return v, eq


def run_point(a):
    idx, k, argv, stdin, wd, pre = a
    d = tempfile.mkdtemp(prefix="k", dir=wd)
    img = os.path.join(d, "out.sqfs")
    try:
        if pre:
            shutil.copyfile(pre, img)
        r, log = envrun.run_env(argv + [img], plan="kill:out#%d" % k, out_path=img, stdin=stdin, want_log=False, timeout=60)
        exists = os.path.exists(img)
        size = os.path.getsize(img) if exists else -1
        info = dict(idx=idx, k=k, rc=r.rc, exists=exists, size=size, sha=sha_file(img) if exists else None)
        if exists:
            info["img"] = img
        return info
    except Exception as e:
        return dict(idx=idx, k=k, error=repr(e))


def main():
    global SCR
    cr = CheckRun("C14", "fault_enumeration", default_budget=(300, 1800))
    with build.Scratch("C14") as sd:
        SCR = sd
        tools = build.build_tools(build.variant("envwrap"), os.path.join(sd, "bin"), tools=["gensquashfs", "tar2sqfs", "rdsquashfs", "sqfs2tar"])
        T.update(tools)
        packcheck.TOOLS.update(tools)
        if cr.replay:
            case = json.load(open(os.path.join(cr.replay, "case.json")))
            print("leftover image: %s/leftover.sqfs ; readers:" % cr.replay)
            v, eq = readers_verdict(os.path.join(cr.replay, "leftover.sqfs"), None)
            print(v)
            return 1
        n_eval = 0
        distinct = set()
        per = []
        for si, (tool, name, spec, cfg) in enumerate(scenarios_for(cr.tier)):
            if cr.expired():
                cr.cap("deadline before scenario %s" % name)
                break
            wd = os.path.join(sd, "s%d" % si)
            argv, stdin = prepare(tool, spec, cfg, wd)
            pre = None
            if cfg.get("preexisting"):
                # a larger valid image (the rich scenario) sits at the output path; the packer is told to overwrite it
                pa, _ = prepare("gensquashfs", scenarios.spec_rich(), dict(comp="gzip", bs=4096), os.path.join(wd, "pre"))
                pre = os.path.join(wd, "pre.sqfs")
                rp = run_tool(pa + [pre])
                if rp.rc != 0:
                    raise RuntimeError("cannot build the pre-existing image: %s" % rp.err[-300:])
                argv = argv + ["-f"]
            img0 = os.path.join(wd, "base.sqfs")
            if pre:
                shutil.copyfile(pre, img0)
                shutil.copyfile(pre, os.path.join(wd, "base2.sqfs"))
            r0, log0 = envrun.run_env(argv + [img0], plan="", out_path=img0, stdin=stdin, timeout=120)
            if r0.rc != 0 or r0.crashed:
                cr.violation("C14|baseline-fails|" + tool, "fault-free run of scenario %s fails: rc=%d %s" % (name, r0.rc, r0.err.decode("latin1")[-500:]))
                continue
            N = envrun.out_calls(log0)
            # identity: the shim must not change the result (compare with an unshimmed plan-free second run)
            img1 = os.path.join(wd, "base2.sqfs")
            r1, log1 = envrun.run_env(argv + [img1], plan="", out_path=img1, stdin=stdin, timeout=120)
            if sha_file(img0) != sha_file(img1) or [l[:5] for l in log0 if l[6]] != [l[:5] for l in log1 if l[6]]:
                cr.note("scenario %s: output-call log not reproducible between two fault-free runs; not enumerated" % name)
                cr.cap("scenario %s not deterministic" % name)
                continue
            full, err = packcheck.decode(img0)
            if full is None:
                cr.violation("C14|baseline-undecodable", "%s: %s" % (name, err))
                continue
            full_tree = sqfsck.canon_tree(full)
            # "the complete, correct image": the reference itself must hold exactly the input files with their contents
            bad = [e["path"] for e in spec if e["type"] == "file" and (e["path"] not in full_tree or full_tree[e["path"]].get("sha") != hashlib.sha256(e["content"]).hexdigest())]
            extra = sorted(set(full_tree) - set(treegen.expected_tree(spec)))
            if bad or extra:
                cr.violation("C14|final-image-not-the-input|" + tool, "scenario %s (%s, cfg %s): the image of the undisturbed run is accepted but is not the input: files with wrong/missing content %r, unexpected paths %r" % (
                    name, tool, cfg, bad[:5], extra[:5]), files={"leftover.sqfs": open(img0, "rb").read(), "case.json": json.dumps(dict(tool=tool, scenario=name, cfg=cfg, k=N + 1, N=N, argv=argv[1:]))})
            kinds = sorted(set(l[0] for l in log0 if l[6] and l[0] in ("write", "pwrite", "trunc")))
            pts = pmap(run_point, [(si, k, argv, stdin, wd, pre) for k in range(1, N + 2)])
            outcomes = {}
            for p in pts:
                n_eval += 1
                if "error" in p:
                    raise RuntimeError(p["error"])
                k = p["k"]
                if k <= N and p["rc"] != 137:
                    cr.violation("C14|kill-not-delivered", "scenario %s: kill:out#%d did not fire (rc=%d) although the baseline has %d output calls" % (name, k, p["rc"], N))
                    continue
                if not p["exists"]:
                    outcomes["no file"] = outcomes.get("no file", 0) + 1
                    distinct.add((si, "nofile"))
                    continue
                distinct.add((si, p["sha"]))
                v, eq = readers_verdict(p["img"], full_tree)
                vs = set(v.values())
                label = None
                if any(x.startswith("crash") or x == "hang" for x in vs):
                    label = "reader crashed/hung on leftover"
                    fp = "C14|reader-crash|" + [x for x in vs if x.startswith("crash") or x == "hang"][0]
                elif vs == {"reject"}:
                    outcomes["all reject"] = outcomes.get("all reject", 0) + 1
                elif vs == {"accept"}:
                    if eq:
                        outcomes["complete image"] = outcomes.get("complete image", 0) + 1
                    else:
                        label = "all readers accept the leftover file but it is not the complete tree"
                        fp = "C14|accepted-incomplete|%s" % tool
                else:
                    acc = sorted(kv[0] for kv in v.items() if kv[1] == "accept")
                    if eq is False or (eq is None):
                        label = "leftover file accepted by %s, rejected by the others, and it is not the complete image" % acc
                        fp = "C14|partially-accepted|%s|%s" % (tool, ",".join(acc))
                    else:
                        # decoder accepts and the tree is complete, but some tool rejects: readers disagree on a complete image
                        label = "leftover file decodes to the complete tree but is rejected by some readers: %s" % v
                        fp = "C14|complete-but-rejected|%s" % tool
                if label:
                    cr.violation(fp, "scenario %s (%s, cfg %s): killed before output call %d of %d\n%s\nverdicts: %s" % (name, tool, cfg, k, N, label, v),
                                 files={"leftover.sqfs": open(p["img"], "rb").read(), "case.json": json.dumps(dict(tool=tool, scenario=name, cfg=cfg, k=k, N=N, argv=argv[1:]))},
                                 replay_sh="python3 /verif/checks/C14.py --replay \"$PWD\"")
            per.append(dict(scenario=name, tool=tool, cfg=cfg, output_calls=N, call_kinds=kinds, crash_points=N + 1, outcomes=outcomes))
            cr.sample(per[-1])
            shutil.rmtree(wd, ignore_errors=True)
        cr.coverage.update(evaluations=n_eval, distinct_nontrivial=len(distinct), scenarios=per,
                           rule="For every scenario the fault-free run's log gives the N write/pwrite/ftruncate calls on the output file; for every k in 1..N+1 the packer is "
                                "killed (_exit(137)) immediately before the k-th call (k=N+1: runs to completion) and rdsquashfs -d, rdsquashfs -l, sqfs2tar and the "
                                "independent decoder are applied to the leftover file. distinct = distinct leftover file contents per scenario. Oracle: all reject, or all "
                                "accept and the decoded tree equals the complete tree.")
        cr.assumptions += ["whole-syscall crash granularity as the property states (no torn writes)", "writes reach the file in program order (no reordering by the page cache is modelled)"]
    return cr.finish()


if __name__ == "__main__":
    main_wrapper(main)
