#!/usr/bin/env python3
"""C10 — reader answers are independent of history: all operation histories up to depth d over an alphabet of reader API calls
(valid and invalid arguments) on valid and damaged images, each replayed on fresh readers; complete BFS closure on the private state
of the metadata reader; stream / positional read / per-block access agree."""
import os, sys, json, shutil, tempfile, struct
sys.path.insert(0, os.path.dirname(os.path.dirname(os.path.abspath(__file__))))
from vlib.common import *
from vlib import build, treegen, sqfsck, packcheck, mkimg
from vlib.mkimg import Node, D, F, L
from vlib.treegen import E, content_pattern

B = 4096
HARNESS = os.path.join(VERIF, "engines/hist/reader_hist.c")


def build_harness(sd):
    v = build.variant("asan")
    libs, objmap = build.lib_objects(v, os.path.join(sd, "libs"))
    exe = os.path.join(sd, "reader_hist")
    cf = v.cflags + build.base_cppflags(v) + ["-I" + build.REPO]
    build._cc(["clang"] + cf + [HARNESS, "-o", exe] + v.ldflags + [libs["libsquashfs_la"], libs["libutil_a"], libs["libcompat_a"]] +
              ["-lz", "-llzma", "-llz4", "-lzstd", "-lpthread"])
    return exe


def spec_v1():
    sp = [E(b"links", "dir", 0o755)]
    for i in range(220):
        sp.append(E(b"links/l%03d" % i, "slink", 0o777, target=(b"target-%03d-" % i) + b"x" * 100))
    sp.append(E(b"big", "dir", 0o755))
    for i in range(150):
        sp.append(E(b"big/" + (b"%03d" % i) + b"n" * 100, "fifo", 0o600, i % 7, i % 5))
    sparse = content_pattern("s0", B) + bytes(B) + content_pattern("s2", B) + b"tail of the sparse file"
    sp += [E(b"a", "dir", 0o755), E(b"a/b", "dir", 0o755), E(b"a/b/c", "dir", 0o755), E(b"a/b/c/deep", "file", content=b"deep file\n"),
           E(b"sparse", "file", content=sparse), E(b"frag1", "file", content=b"fragment one " * 20), E(b"frag2", "file", content=b"fragment two " * 30),
           E(b"blocks", "file", content=content_pattern("blk", 2 * B + 300), xattrs={b"user.a": b"1", b"user.long": b"V" * 300}),
           E(b"xb", "file", content=b"xb", xattrs={b"user.long": b"V" * 300, b"trusted.t": b"2"}),
           # tails of 3000 bytes: each needs a fragment block of its own (block size 4096)
           E(b"ta", "file", content=content_pattern("ta", 2 * B + 3000)), E(b"tb", "file", content=content_pattern("tb", 3000)),
           E(b"tc", "file", content=content_pattern("tc", B + 3000)),
           # compressible blocks (the decompressor is involved in every block of this file)
           E(b"text", "file", content=b"".join(b"text-line-%05d compressible compressible\n" % i for i in range(400))[:2 * B + 700])]
    return sp


def derive_ops(img_bytes):
    """ops for the enumeration and for the meta-reader BFS, from the independent decoder's view of the (valid) image"""
    im = sqfsck.load(img_bytes)
    sb = im.sb
    t = im.tree
    files = sorted((p for p, n in t.items() if n["type"] == "file"), key=lambda p: -t[p]["size"])
    dirs = sorted((p for p, n in t.items() if n["type"] == "dir"), key=lambda p: -t[p].get("nentries", 0))
    refs = sorted(set(n["ref"] for n in t.values()))
    f0 = t[files[0]]
    ffrag = next((t[p] for p in files if t[p]["layout"]["frag"]), f0)
    fmulti = next((t[p] for p in files if len(t[p]["block_sizes"]) >= 2), f0)
    ffrag2 = next((t[p] for p in reversed(files) if t[p]["layout"]["frag"]), ffrag)      # a second (the smallest) file with a tail end
    last_blk = max(r >> 16 for r in refs)
    ops = []
    ops.append("inode %d" % refs[0])
    ops.append("inode %d" % refs[len(refs) // 2])
    ops.append("inode %d" % refs[-1])
    ops.append("inode %d" % ((last_blk << 16) | 8191))            # offset beyond the (partial) last block's data
    ops.append("inode %d" % ((0x7FFFFFF << 16) | 0))              # block outside the table
    ops.append("inode %d" % (((refs[len(refs) // 2] >> 16) << 16) | 8190))   # valid block, offset in the middle of some inode
    # a reference whose block header lies in the last bytes of the inode table: the header is readable, the block it announces ends beyond the table
    itab_size = sb["dir_table"] - sb["inode_table"]
    ops.append("inode %d" % ((itab_size - 2) << 16))
    ops.append("inode %d" % ((itab_size - 1) << 16))
    # the last inode that starts in the first metadata block (it usually continues in the next block): reading it runs across the block boundary
    blk0 = min(r >> 16 for r in refs)
    in0 = [r for r in refs if (r >> 16) == blk0]
    if len(set(r >> 16 for r in refs)) > 1:
        ops.append("inode %d" % max(in0))
    ops.append("readdir %d" % t[dirs[0]]["ref"])
    ops.append("readdir %d" % t[b""]["ref"])
    deep = max(t, key=lambda p: p.count(b"/"))
    ops.append("path %d %s" % (t[b""]["ref"], os.fsdecode(deep)))
    ops.append("path %d no/such/entry" % t[b""]["ref"])
    ops.append("read %d 0 %d" % (fmulti["ref"], B))
    ops.append("read %d %d 10" % (fmulti["ref"], B))
    # ranges strictly inside the first and inside the second block of a file whose blocks are compressed (a read that starts on a block boundary may touch the block before it)
    fcomp = next((t[p] for p in files if len(t[p]["layout"]["blocks"]) >= 2 and all(b[2] for b in t[p]["layout"]["blocks"][:2])), fmulti)
    ops.append("read %d 64 100" % fcomp["ref"])
    ops.append("read %d %d 100" % (fcomp["ref"], B + 64))
    ops.append("read %d %d 10" % (fmulti["ref"], max(0, fmulti["size"] - 3)))
    ops.append("read %d 0 100" % ffrag["ref"])
    ops.append("block %d 1" % fmulti["ref"])
    ops.append("block %d 99" % fmulti["ref"])
    ops.append("frag %d" % ffrag["ref"])
    ops.append("stream %d" % fmulti["ref"])
    ops.append("stream %d" % ffrag["ref"])
    # a stream of a file with a tail end, interleaved with positional reads of the tail of a file that lives in ANOTHER fragment block
    fr = [t[p] for p in files if t[p]["layout"]["frag"]]
    for x in fr:
        y = next((z for z in fr if z["layout"]["frag"][0] != x["layout"]["frag"][0]), None)
        if y is not None and len(x["block_sizes"]) >= 1:
            ops.append("streami %d %d %d" % (x["ref"], y["ref"], max(0, y["size"] - 20)))
            ops.append("streami %d %d %d" % (y["ref"], x["ref"], max(0, x["size"] - 20)))
            break
    if ffrag2 is not ffrag:
        ops.append("read %d 0 10" % ffrag2["ref"])
        ops.append("frag %d" % ffrag2["ref"])
    # directory reader created with DOT_ENTRIES: its inode-number cache is fed by every get_inode, '.' and '..' are answered from it
    ops.append("inodedot %d" % ((((refs[len(refs) // 2] >> 16) << 16) | 8190)))      # bogus reference (middle of some inode)
    ops.append("inodedot %d" % t[dirs[0]]["ref"])
    ops.append("readdirdot %d" % t[dirs[0]]["ref"])
    ops.append("readdirdot %d" % t[os.path.dirname(deep)]["ref"])
    # the xattr reader's low-level API with interleaved descriptor lookups (valid set, out-of-range set)
    ops.append("xwalk 0 4294967295")
    ops.append("xwalk 0 1")
    ops.append("xwalk 1 0")
    ops.append("xwalk 1 4000")
    ops.append("xattr 0")
    ops.append("xattr 1")
    ops.append("xattr 4000")
    ops.append("id 0")
    ops.append("id 9999")
    # meta reader: every inode-table and directory-table block x offsets x lengths
    mops = []
    blocks = sorted(im.meta_blocks.get("inode", ())) + sorted(im.meta_blocks.get("dir", ()))[:2]
    for b in blocks[:5]:
        used = len(im.meta_cache[b][0])
        for off in sorted(set([0, 1, used - 1, used, 8191])):
            for n in (1, 16, 8192):
                mops.append("mseek %d %d %d" % (b, off, n))
    mops.append("mseek %d 0 4" % (sb["bytes_used"] + 10))
    mops.append("mseek %d 0 4" % 3)            # not a block start: garbage header
    return ops, mops, [t[p]["ref"] for p in files]


def damaged_images(sd):
    """MKIMG image with two inode-table blocks and variants damaged so that operations fail after touching a cache"""
    many = [(b"e%03d" % i, Node("fifo", 0o600), None) for i in range(450)]
    root = D([(b"many", D(many, ext=True, tag="many"), None), (b"f1", F(content_pattern("f1", 2 * B + 50), tag="f1"), None), (b"f2", F(b"frag two " * 10, tag="f2"), None),
              (b"sub", D([(b"x", F(b"x" * 40, ext=True, xattrs={b"user.k": b"v"}, tag="x"), None)], tag="sub"), None)], tag="root")
    img, fields = mkimg.build(root)
    out = [("v3-mkimg", img)]
    itab = mkimg.get_field(img, fields, "super.inode_table")

    def mut(name, off, width, value):
        b = bytearray(img)
        b[off:off + width] = value.to_bytes(width, "little")
        out.append((name, bytes(b)))
    mut("d1-second-inode-block-header-too-large", itab + 8194, 2, 0x8000 | 8193)
    mut("d2-second-inode-block-header-short", itab + 8194, 2, 0x8000 | 40)
    o, w = fields["frag0.size"]
    mut("d3-fragment-entry-bad-size", o, w, (1 << 24) | 0xFFFFF)
    o, w = fields["f1.block_size1"]
    mut("d4-block-size-word-too-large", o, w, (1 << 24) | 5000)
    o, w = fields["root.ent1.offset"]
    mut("d5-dir-entry-offset-beyond-block", o, w, 8191)
    o, w = fields["xattr0.ref"]
    mut("d6-xattr-ref-out-of-bounds", o, w, 0xFFFFFF0000)
    o, w = fields["x.frag_idx"]
    mut("d7-fragment-index-past-table", o, w, 1)
    mut("d8-fragment-index-huge", o, w, 0xFFFFFFFE)
    o, w = fields["x.frag_off"]
    mut("d9-fragment-offset-past-block", o, w, 100000)
    return out, img


def big_inode_table_image():
    """MKIMG image whose (uncompressed) inode table is larger than 64 KiB: inode references of the late directories need more than 32 bits"""
    many = [(b"e%04d" % i, D([], tag="e%d" % i), None) for i in range(2300)]
    root = D([(b"f", F(b"hello", tag="f"), None), (b"many", D(many, tag="many"), None)], tag="root")
    img, _ = mkimg.build(root)
    im = sqfsck.load(img)
    if im.violations:
        raise RuntimeError("MKIMG produced an invalid image: %s" % im.violations[:2])
    if max(n["ref"] for n in im.tree.values()) < (1 << 32):
        raise RuntimeError("big image has no inode reference beyond 32 bits")
    return img


def run_part(a):
    exe, img, opsf, mode = a[0], a[1], a[2], a[3]
    r = run_tool([exe, img, opsf] + mode, timeout=3000)
    try:
        j = json.loads(r.out.decode().strip().splitlines()[-1])
    except Exception:
        j = None
    return a, r, j


def main():
    cr = CheckRun("C10", "model_checking", default_budget=(420, 3000))
    with build.Scratch("C10") as sd:
        exe = build_harness(sd)
        tools = build.build_tools(build.variant("asan"), os.path.join(sd, "bin"), tools=["gensquashfs"])
        packcheck.TOOLS.update(tools)
        if cr.replay:
            img = os.path.join(cr.replay, "image.sqfs")
            try:
                mode = json.load(open(os.path.join(cr.replay, "case.json")))["mode"][0]
            except Exception:
                mode = "enum"
            r = run_tool([exe, img, os.path.join(cr.replay, "ops.txt"), mode if mode in ("enum", "reload") else "enum", "3", "0", "99"], timeout=600)
            print(r.out.decode(), r.err.decode("latin1")[-2000:])
            return 1
        depth = 3 if cr.quick else 4
        images = []
        for comp in (("gzip", "lz4") if cr.quick else ("gzip", "lz4", "xz", "zstd")):
            wd = os.path.join(sd, "v1_" + comp)
            os.makedirs(wd)
            r, img, argv = packcheck.pack(spec_v1(), dict(comp=comp, bs=B, e=1), wd)
            if r.rc != 0:
                raise RuntimeError("cannot build image: %s" % r.err[-300:])
            vdata = open(img, "rb").read()
            images.append(("v1-gensquashfs-" + comp, vdata, None))
            # the same image with the payload of one compressed block damaged (a data block, an inode-table block, a fragment block): the
            # decompressor - shared by all readers - fails on it; what the readers answer afterwards must not depend on that
            vim = sqfsck.load(vdata)
            blk_file = next((n for n in vim.tree.values() if n["type"] == "file" and any(b[1] > 20 and b[2] for b in n["layout"]["blocks"])), None)
            targets = []
            if blk_file is not None:
                b0 = next(b for b in blk_file["layout"]["blocks"] if b[1] > 20 and b[2])
                targets.append(("data-block", b0[0] + 6))
            # the SECOND block of the multi-block file the read operations address (its first block stays readable)
            vfiles = sorted((p_ for p_, n_ in vim.tree.items() if n_["type"] == "file"), key=lambda p_: -vim.tree[p_]["size"])
            fm = next((vim.tree[p_] for p_ in vfiles if len(vim.tree[p_]["layout"]["blocks"]) >= 2 and all(b[2] for b in vim.tree[p_]["layout"]["blocks"][:2])), None)
            if fm is not None and fm["layout"]["blocks"][1][1] > 20:
                targets.append(("second-data-block", fm["layout"]["blocks"][1][0] + 6))
            ipos = sorted(vim.meta_blocks.get("inode", ()))
            if len(ipos) > 1:
                targets.append(("second-inode-block", ipos[1] + 2 + 6))
            for tname, off in targets:
                d = bytearray(vdata)
                for k_ in range(8):
                    d[off + k_] ^= 0xA5
                images.append(("g-%s-%s-corrupt" % (comp, tname), bytes(d), vdata))
        images.append(("v4-big-inode-table", big_inode_table_image(), None))
        dmg, valid3 = damaged_images(sd)
        for name, data in dmg:
            images.append((name, data, valid3))
        jobs = []
        meta = {}
        for name, data, valid in images:
            ops, mops, filerefs = derive_ops(valid if valid is not None else data)
            ip = os.path.join(sd, name + ".sqfs")
            open(ip, "wb").write(data)
            of = os.path.join(sd, name + ".ops")
            open(of, "w").write("\n".join(ops) + "\n")
            mf = os.path.join(sd, name + ".mops")
            open(mf, "w").write("\n".join(mops) + "\n")
            # table reloads between queries: the data / xattr / id queries of the alphabet plus every (table, variant) reload
            rops = [o for o in ops if o.split()[0] in ("read", "block", "frag", "stream", "xattr", "xwalk", "id")] + \
                   ["reload %d %d" % (tb, var) for tb in range(3) for var in range(5)]
            rf = os.path.join(sd, name + ".rops")
            open(rf, "w").write("\n".join(rops) + "\n")
            meta[name] = dict(ops=ops, mops=mops, rops=rops, image=ip, opsf=of, mopsf=mf)
            rdepth = 4 if (not cr.quick and name in ("v1-gensquashfs-gzip", "v3-mkimg")) else 3
            for first in range(len(rops)):
                jobs.append((exe, ip, rf, ["reload", str(rdepth), str(first), str(first + 1)], name))
            d = depth if (not name.startswith("d") or not cr.quick) else min(depth, 3)
            for first in range(len(ops)):
                jobs.append((exe, ip, of, ["enum", str(d), str(first), str(first + 1)], name))
            jobs.append((exe, ip, mf, ["bfs"], name))
            if valid is None or name.startswith("v3"):
                jobs.append((exe, ip, of, ["agree"], name))
        tot = dict(histories=0, ops_executed=0, states=0, transitions=0, answers_ok=0, answers_error=0)
        per = {}
        for a, r, j in pmap(run_part, jobs):
            name, mode = a[4], a[3][0]
            if r.crashed or j is None:
                fp = "C10|crash|" + (r.crash_fingerprint() if r.crashed else "no-result")
                cr.violation(fp, "image %s, mode %s: harness died rc=%d\n%s" % (name, a[3], r.rc, r.err.decode("latin1")[-2500:]),
                             files={"image.sqfs": open(a[1], "rb").read(), "ops.txt": open(a[2]).read(), "case.json": json.dumps(dict(image=name, mode=a[3]))},
                             replay_sh="python3 /verif/checks/C10.py --replay \"$PWD\"")
                continue
            for k in tot:
                tot[k] += j.get(k, 0)
            p = per.setdefault(name, dict(histories=0, bfs_states=0, mismatches=0))
            p["histories"] += j["histories"]
            if mode == "bfs":
                p["bfs_states"] = j["states"]
            if j["mismatches"]:
                p["mismatches"] += j["mismatches"]
                fm = j["first_mismatch"]
                last = fm["history"][-1].split()[0] if fm.get("history") else "?"
                kind = "agree" if mode == "agree" else ("meta-reader" if mode == "bfs" else last)
                if mode == "reload":
                    kind = "reload-history:" + last
                # which earlier op poisoned it: the op before the last one
                prev = fm["history"][-2].split()[0] if len(fm.get("history", [])) >= 2 else "-"
                cr.violation("C10|history-dependent|%s after %s|%s" % (kind, prev, "damaged" if name.startswith("d") else "valid"),
                             "image %s (%s): %d history(ies) give an answer that differs from fresh readers; first: %s\nfresh: status %s hash %s ; after history: status %s hash %s" % (
                                 name, mode, j["mismatches"], fm["history"], fm["fresh_status"], fm["fresh_hash"], fm["got_status"], fm["got_hash"]),
                             files={"image.sqfs": open(a[1], "rb").read(), "ops.txt": open(a[2]).read(), "case.json": json.dumps(dict(image=name, mode=a[3], first_mismatch=fm))},
                             replay_sh="python3 /verif/checks/C10.py --replay \"$PWD\"")
        cr.sample({"image": "v1-gensquashfs-gzip", "operation_alphabet": meta["v1-gensquashfs-gzip"]["ops"]})
        cr.sample({"image": images[-1][0], "meta_reader_ops": meta[images[-1][0]]["mops"][:8] + ["..."], "count": len(meta[images[-1][0]]["mops"])})
        cr.coverage.update(states=tot["states"], transitions=tot["transitions"] + tot["ops_executed"], traces_validated_against_impl=tot["histories"],
                           evaluations=tot["histories"], distinct_nontrivial=tot["histories"], answers_ok=tot["answers_ok"], answers_error=tot["answers_error"],
                           depth=depth, images={k: v for k, v in per.items()},
                           rule="Images: gensquashfs images (3+ inode-table blocks, 2 directory-table blocks, fragments, sparse block, inline and out-of-line xattrs, export table) per compressor, "
                                "an image from the independent writer and 6 damaged variants of it (bad metadata headers, fragment size, block size word, entry offset, xattr reference). "
                                "Alphabet: 24 reader operations with valid and invalid arguments (get_inode in 3 blocks / beyond block data / outside the table / mid-inode, readdir x2, resolve_path "
                                "x2, read x4, get_block x2, get_fragment, stream x2, xattr read_all x3, id lookup x2). Every history of length <= depth is replayed on fresh readers and each answer "
                                "(status, payload hash) compared with the answer of the same operation on fresh readers. Meta reader: BFS to a fixpoint over seek(block,offset)+read(n) for all "
                                "table blocks x 5 offsets x 3 lengths, deduplicated on its private state (tag, next block, fill, cursor, whole buffer). states = distinct private states; "
                                "traces = histories executed on the implementation. Plus stream == positional read == per-block/fragment access on every file.")
        cr.assumptions += ["directory reader created with flags 0 as all tools do (the DOT_ENTRIES inode cache is history dependent by documented design)",
                           "only the metadata reader's private state is observable for deduplication; the other readers are explored depth-bounded"]
    return cr.finish()


if __name__ == "__main__":
    main_wrapper(main)
