#!/usr/bin/env python3
"""C02 — determinism. Three dimensions, each enumerated:
 1. schedules: the real block processor on the real thread pool under the controlled scheduler (SCHED), every
    interleaving (complete or preemption-bounded) must give the bytes/inodes/fragment table of the serial pool;
 2. configurations: real gensquashfs/tar2sqfs, every (-j, -Q) of a grid and CPU affinity masks, vs the NO_THREAD_IMPL build;
 3. environment: clock x TZ x locale x umask x cwd full product."""
import os, sys, json, shutil, tempfile, itertools, subprocess
from concurrent.futures import ThreadPoolExecutor
sys.path.insert(0, os.path.dirname(os.path.dirname(os.path.abspath(__file__))))
from vlib.common import *
from vlib import build, sched, treegen, scenarios, envrun, packcheck
from vlib.treegen import E, content_pattern

SCN_QUICK = ["+q5", "a1", "+r20,+s20,a2+010", "+q31,a2,b2,+q31", "+Q5,+R7,C:A4", "C:A1+Q5,+R7,B1", "a2+q5", "a2+q5,+q5", "A2+Q5,b1", "01,a1+q3", "a2+q5,a2+q5", "+r20,+s20,a1", "+R20,+S20,+R20", "A1+R20,+S20,+R20,a1", "a1,+r20,+s20,+r20,b2", "F:a1+q5,a1", "D:a2,a2", "02+q3,+q3,a1"]
SCN_THOROUGH = SCN_QUICK + ["a3+q9,b1,+q9", "+r20,+s20,+t20,+r20,a2", "a1,b1,a1,b1", "A1+r20,+s20,A1+r20", "a2+q5,0a2+q5".replace("0a", "a"), "F:+q5,+q5,F:+q5"]


def sched_plan(tier):
    """(workers, backlog, scenario, mode)"""
    P = []
    if tier == "quick":
        for s in SCN_QUICK:
            P.append((2, 3, s, "complete"))
        for s in ("a2+q5,+q5", "+R20,+S20,+R20", "a2+q5,a2+q5"):
            P.append((2, 10, s, "complete"))
        P.append((3, 3, "+R20,+S20,+R20", 1))
        P.append((1, 3, "a2+q5,a2+q5", "complete"))
    else:
        for s in SCN_THOROUGH:
            for bl in (3, 4, 10):
                P.append((2, bl, s, "complete"))
            P.append((1, 3, s, "complete"))
        for s in SCN_THOROUGH:
            P.append((3, 3, s, "complete"))
        for s in SCN_QUICK[2:9]:
            P.append((3, 10, s, 3))
    return P


G = {}


def run_cfg_job(a):
    ta, ts = G['ta'], G['ts']
    key, label, exe_, wd, tool, comp, j, q, ncpu = a
    d = tempfile.mkdtemp(prefix="o", dir=wd)
    try:
        img = os.path.join(d, "o.sqfs")
        argv = [exe_, "-q", "-b", "4096", "-c", comp]
        if j:
            argv += ["-j", str(j)]
        if q:
            argv += ["-Q", str(q)]
        if tool == "gensquashfs":
            argv += ["-F", os.path.join(wd, "pack.txt"), "-D", os.path.join(wd, "in")]
            if os.path.exists(os.path.join(wd, "sort.txt")):
                argv += ["-S", os.path.join(wd, "sort.txt")]
            argv += [img]
            stdin_file = None
        else:
            argv += [img]
            stdin_file = os.path.join(wd, "in.tar")
        pre = None
        if ncpu:
            cpus = sorted(os.sched_getaffinity(0))[:ncpu]
            argv = ["taskset", "-c", ",".join(str(c) for c in cpus)] + argv
        r = run_tool(argv, stdin_file=stdin_file, timeout=120)
        return key, label, r.rc, (sha_file(img) if os.path.exists(img) else None), r.crashed, r.err[-800:]
    finally:
        shutil.rmtree(d, ignore_errors=True)



def run_env_job(a):
    ta, wd = G['ta'], G['wd']
    tool, (clock, tz, lc, um, cwd) = a
    d = tempfile.mkdtemp(prefix="e", dir=wd)
    try:
        img = os.path.join(d, "o.sqfs")
        if tool == "gensquashfs":
            argv = [ta[tool], "-q", "-b", "4096", "-j", "2", "-F", os.path.join(wd, "pack.txt"), "-D", os.path.join(wd, "in"), img]
            sf = None
        else:
            argv = [ta[tool], "-q", "-b", "4096", "-j", "2", img]
            sf = os.path.join(wd, "in.tar")
        old = os.umask(um)
        try:
            r, _ = envrun.run_env(argv, plan="time:%d" % clock, stdin_file=sf, cwd=cwd, want_log=False, timeout=60,
                                  env={"TZ": tz, "LC_ALL": lc, "LANG": lc})
        finally:
            os.umask(old)
        return tool, (clock, tz, lc, um, cwd), r.rc, (sha_file(img) if os.path.exists(img) else None), r.err[-400:]
    finally:
        shutil.rmtree(d, ignore_errors=True)


TSAN_COMPS = [("xz", None), ("xz", "extreme"), ("xz", "x86,extreme,dictsize=8192"), ("xz", "level=1,lc=1,lp=1,pb=1"), ("lzma", None), ("lz4", None), ("lz4", "hc"),
              ("zstd", None), ("zstd", "level=7"), ("gzip", "level=3,window=10,filtered,huffman")]


def run_tsan_job(a):
    exe_, wd, j, q = a[:4]
    comp, xo = a[4] if len(a) > 4 else ("gzip", None)
    d = tempfile.mkdtemp(prefix="t", dir=wd)
    try:
        img = os.path.join(d, "o.sqfs")
        r = run_tool([exe_, "-q", "-b", "4096", "-c", comp] + (["-X", xo] if xo else []) + ["-j", str(j), "-Q", str(q), "-F", os.path.join(wd, "pack.txt"), "-D", os.path.join(wd, "in"), img], timeout=300)
        bad = r.crashed or b"ThreadSanitizer" in r.err
        return bad, (r.crash_fingerprint() if bad else ""), "-c %s%s -j %d -Q %d in %s" % (comp, " -X " + xo if xo else "", j, q, os.path.basename(wd)), r.err.decode("latin1")[-3000:]
    finally:
        shutil.rmtree(d, ignore_errors=True)


def main():
    cr = CheckRun("C02", "model_checking", default_budget=(900, 6000))
    with build.Scratch("C02") as sd:
        exe = sched.build_bp_explorer(sd)
        if cr.replay:
            case = json.load(open(os.path.join(cr.replay, "case.json")))
            if case.get("kind") == "schedule":
                r = sched.replay(exe, case["hargs"], os.path.join(cr.replay, "schedule.txt"))
                sys.stderr.write(r.err.decode("latin1")[-6000:])
                print(r.out.decode())
                return 1 if r.rc != 0 else 0
            print(json.dumps(case, indent=1))
            return 1
        tot = dict(executions=0, states=0, transitions=0)
        per = []

        # ---- 0. cross-validation of state-hash pruning (verdict + outcome must agree with un-hashed bounded exploration)
        for hargs, b in (([2, 3, "+q5"], 1), ([2, 3, "a1"], 2)):
            j1, r1 = sched.explore(exe, hargs, bound=b, nohash=True, deadline=60)
            j2, r2 = sched.explore(exe, hargs, bound=b)
            if j1 is None or j2 is None:
                raise RuntimeError("explorer failed: %s %s" % (r1.err[-300:], r2.err[-300:]))
            if j1["capped"]:
                cr.note("un-hashed cross-validation run for %s capped at 60 s" % hargs)
            elif (j1["violation"] is None) != (j2["violation"] is None):
                raise RuntimeError("hashed and un-hashed exploration disagree on %s bound %d" % (hargs, b))
            cr.coverage.setdefault("hash_pruning_cross_validation", []).append(
                {"hargs": hargs, "bound": b, "executions_nohash": j1["executions"], "executions_hash": j2["executions"]})
            tot["executions"] += j1["executions"] + j2["executions"]
            tot["transitions"] += j1["transitions"] + j2["transitions"]
            tot["states"] += j2["states"]

        # ---- 1. schedules
        budget1 = cr.t0 + (cr.deadline - cr.t0) * 0.6
        plan = sched_plan(cr.tier)

        def run_cfg(c, procs):
            w, bl, s, mode = c
            hargs = [w, bl, s]
            res = []
            bounds = [0, 1, 2, -1] if mode == "complete" else list(range(mode + 1))
            for b in bounds:
                left = budget1 - time.time()
                if left < 5:
                    res.append((b, None))
                    break
                j, r = sched.explore(exe, hargs, bound=b, procs=procs, deadline=max(5, left), unlock_points=True)
                res.append((b, j if j is not None else r))
                if j is None or j["violation"] is not None or j["capped"]:
                    break
            return c, res

        small = [c for c in plan if c[0] <= 2]
        big = [c for c in plan if c[0] > 2]
        results = []
        for c in big:
            results.append(run_cfg(c, 16))
        with ThreadPoolExecutor(4) as ex:
            results += list(ex.map(lambda c: run_cfg(c, 4), small))
        ncomplete = 0
        for c, res in results:
            w, bl, s, mode = c
            done = None
            for b, j in res:
                if j is None:
                    cr.cap("deadline before bound %s of %s" % (b, c))
                    break
                if not isinstance(j, dict):
                    raise RuntimeError("explorer produced no result for %s: %s" % (c, j.err[-400:]))
                for k in tot:
                    tot[k] += j[k]
                if j["violation"] is not None:
                    v = j["violation"]
                    if v["outcome"] == 6:
                        raise RuntimeError("replay divergence: " + v["msg"])
                    kind = {3: "deadlock", 4: "differs-from-serial", 5: "livelock"}.get(v["outcome"], "crash")
                    core = v["msg"].split(":")[0][:60] if kind != "crash" else "sanitizer"
                    cr.violation("C02|schedule|%s|%s" % (kind, core),
                                 "block processor, %d workers, backlog %d, scenario %r, preemption bound %s\n%s\nschedule (thread ids) %s\nreplayed_same=%s" % (
                                     w, bl, s, b, v["msg"], v["schedule_threads"], v["replayed_same"]),
                                 files={"case.json": json.dumps(dict(kind="schedule", hargs=[w, bl, s], bound=b, violation=v), indent=1),
                                        "schedule.txt": " ".join(str(x) for x in v["schedule_choices"]) + "\n"},
                                 replay_sh="python3 /verif/checks/C02.py --replay \"$PWD\"")
                    break
                if j["capped"]:
                    cr.cap("deadline inside bound %s of %s" % (b, c))
                    break
                done = "complete" if b == -1 else b
            if done == "complete":
                ncomplete += 1
            last = [j for b, j in res if isinstance(j, dict)]
            per.append(dict(workers=w, backlog=bl, scenario=s, completed=done,
                            executions=sum(j["executions"] for j in last), states=max([j["states"] for j in last] or [0])))
            if done == "complete" and len(cr.coverage["samples"]) < 4 and w >= 2 and "," in s:
                j = last[-1]
                cr.sample(dict(kind="schedules", workers=w, backlog=bl, scenario=s, bound="complete", executions=j["executions"], states=j["states"],
                               transitions=j["transitions"], max_depth=j["max_depth"], outcome=j["outcomes"][0]["result"] if j["outcomes"] else None))

        # ---- 2. configurations: real tools, -j/-Q grid and CPU affinity vs the serial build
        ta = build.build_tools(build.variant("envwrap"), os.path.join(sd, "asan"), tools=["gensquashfs", "tar2sqfs"])
        ts = build.build_tools(build.variant("serial"), os.path.join(sd, "serial"), tools=["gensquashfs", "tar2sqfs"])
        G['ta'], G['ts'] = ta, ts
        inputs = []
        B = 4096
        sp1 = [E(b"m%d" % i, "file", content=content_pattern("m%d" % (i % 3), (i % 5) * B + 100 * i)) for i in range(12)]
        sp1 += [E(b"t%02d" % i, "file", content=content_pattern("t%d" % (i % 7), 1500 + i)) for i in range(14)]
        # data blocks followed by an all-zero tail (a hole that is booked at once, before the file's data blocks that wait behind a fragment block in flight)
        sp1 += [E(b"t%02dz" % i, "file", content=content_pattern("tz%d" % i, 2 * B) + bytes(700 + i)) for i in (1, 4, 9, 12)]
        sp1 += [E(b"z", "file", content=bytes(3 * B) + b"end"), E(b"dup", "file", content=content_pattern("m1", 1 * B + 100))]
        # identical tail ends of B-1 bytes (size = 15 mod 16, the last byte of the block buffer is not part of the data) between multi-block files
        sp1 += [E(b"m%dx" % (3 * i), "file", content=content_pattern("same-tail", B - 1)) for i in range(4)]
        inputs.append(("many-blocks-frags-dups-sparse", sp1))
        inputs.append(("rich", scenarios.spec_rich()))
        # per-file packing flags from a sort file: flags of the file being appended must not leak into blocks submitted earlier (depends on how far dequeuing lags = -Q)
        comp_txt = lambda tag, n: ((tag + " compressible line\n") * (n // 10 + 1)).encode()[:n]
        sp_sort = [E(b"a", "file", content=comp_txt("a", 300)), E(b"b", "file", content=comp_txt("b", 700)), E(b"c", "file", content=comp_txt("c", 1100)),
                   E(b"zbig", "file", content=comp_txt("zbig", 20 * B + 7)), E(b"zz", "file", content=comp_txt("zz", 2 * B + 50)), E(b"zzz", "file", content=comp_txt("zzz", 90))]
        inputs.append(("sort-flags", sp_sort))
        # incompressible full blocks between compressible ones: a compressor instance that is left in a bad state by a block it could not shrink
        # treats its later blocks differently - which blocks those are depends on the worker that got it
        sp_mix = []
        for i in range(10):
            sp_mix.append(E(b"x%02d" % i, "file", content=(content_pattern("mx%d" % i, B) if i % 3 == 0 else comp_txt("x%d" % i, 3 * B + 11 * i))))
        inputs.append(("mixed-compressibility", sp_mix))
        SORTS = {"sort-flags": b"0 [dont_compress] zbig\n1 [dont_fragment] zz\n"}
        if not cr.quick:
            inputs.append(("frag-overflow", scenarios.spec_frag()))
            inputs.append(("big", [E(b"big%d" % i, "file", content=content_pattern("B%d" % i, 37 * B + i)) for i in range(4)]))
        grid = [(j, q) for j in ((1, 2, 16) if cr.quick else (1, 2, 3, 4, 8, 16, 64)) for q in ((1, 3, 1000) if cr.quick else (1, 2, 3, 5, 10, 1000))]
        jobs = []
        refs = {}
        for iname, spec in inputs:
            wd = os.path.join(sd, "cfg_" + iname)
            os.makedirs(wd)
            pf = treegen.render_packfile(spec, wd)
            open(os.path.join(wd, "pack.txt"), "wb").write(pf)
            if iname in SORTS:
                open(os.path.join(wd, "sort.txt"), "wb").write(SORTS[iname])
            tarb = scenarios.make_tar([e for e in spec if e["type"] != "sock"])
            open(os.path.join(wd, "in.tar"), "wb").write(tarb)
            for tool in ("gensquashfs", "tar2sqfs"):
                for comp in (("gzip",) if cr.quick else ("gzip", "zstd")):
                    base = [("-q", "-b", "4096", "-c", comp)]
                    key = (iname, tool, comp)
                    jobs.append((key, "serial", ts[tool], wd, tool, comp, None, None, None))
                    for j, q in grid:
                        jobs.append((key, "-j%d -Q%d" % (j, q), ta[tool], wd, tool, comp, j, q, None))
                    for ncpu in (1, 2, 5, 16):
                        jobs.append((key, "default -j, affinity %d cpus" % ncpu, ta[tool], wd, tool, comp, None, None, ncpu))

        n_cfg = 0
        have_taskset = shutil.which("taskset") is not None
        if not have_taskset:
            jobs = [j for j in jobs if j[8] is None]
            cr.note("taskset not available: CPU affinity dimension skipped")
        res2 = pmap(run_cfg_job, jobs, procs=8)
        for key, label, rc, sh, crashed, err in res2:
            if label == "serial":
                refs[key] = sh
        for key, label, rc, sh, crashed, err in res2:
            n_cfg += 1
            if crashed or rc != 0 or sh is None:
                cr.violation("C02|config|tool-fails|%s" % key[1], "%s %s: rc=%d %s" % (key, label, rc, err.decode("latin1")),
                             files={"case.json": json.dumps(dict(kind="config", key=key, label=label))})
            elif sh != refs[key]:
                cr.violation("C02|config|differs-from-serial|%s" % key[1], "input %s, %s -c %s, %s: image sha256 %s differs from the serial build's %s" % (
                    key[0], key[1], key[2], label, sh[:16], (refs[key] or "?")[:16]),
                    files={"case.json": json.dumps(dict(kind="config", key=key, label=label))})
        cr.sample(dict(kind="configurations", grid=["-j%d -Q%d" % g for g in grid][:6] + ["..."], inputs=[i[0] for i in inputs], runs=n_cfg))

        # ---- 2b. free-running ThreadSanitizer pass on the real tool (complement for unsynchronised accesses)
        n_tsan = 0
        try:
            tt = build.build_tools(build.variant("tsan"), os.path.join(sd, "tsan"), tools=["gensquashfs"])
            tj = []
            for iname, spec in inputs[:2]:
                wdx = os.path.join(sd, "cfg_" + iname)
                for j_, q_ in ((4, 1), (4, 1000), (2, 3), (8, 10)):
                    for rep in range(2 if cr.quick else 10):
                        tj.append((tt["gensquashfs"], wdx, j_, q_))
            # every compressor (and its option sets): the workers' private copies must not share anything
            for cx in TSAN_COMPS:
                for j_, q_ in ((4, 10),) if cr.quick else ((4, 10), (2, 1), (8, 1000)):
                    tj.append((tt["gensquashfs"], os.path.join(sd, "cfg_" + inputs[0][0]), j_, q_, cx))
            for r_ in pmap(run_tsan_job, tj, procs=4):
                n_tsan += 1
                if r_[0]:
                    cr.violation("C02|tsan|" + r_[1], "gensquashfs built with -fsanitize=thread, %s\n%s" % (r_[2], r_[3]),
                                 files={"case.json": json.dumps(dict(kind="tsan", what=r_[2]))})
        except build.BuildError as e:
            cr.note("TSan build failed: %s" % str(e)[:200])
        cr.coverage["tsan_cli_runs"] = n_tsan

        # ---- 2c. compressors are pure functions of their input: every history of <= 2 (thorough 3) blocks x compressor configuration
        # (each worker owns a private compressor copy; a result that depended on what the instance compressed before would make the image depend on -j)
        v_as = build.variant("asan")
        libs, _ = build.lib_objects(v_as, os.path.join(sd, "libs_asan"))
        chx = os.path.join(sd, "comp_hist")
        build._cc(["clang"] + v_as.cflags + build.base_cppflags(v_as) + ["-I" + build.REPO, os.path.join(VERIF, "engines/hist/comp_hist.c"), "-o", chx] + v_as.ldflags +
                  [libs["libsquashfs_la"], libs["libutil_a"], libs["libcompat_a"]] + ["-lz", "-llzma", "-llz4", "-lzstd", "-lpthread"])
        rch = run_tool([chx, "2" if cr.quick else "3"], timeout=1800)
        try:
            jch = json.loads(rch.out.decode().strip().splitlines()[-1])
        except Exception:
            jch = None
        if rch.crashed or jch is None:
            cr.violation("C02|compressor-history|" + (rch.crash_fingerprint() if rch.crashed else "no-result"), "compressor history harness died rc=%d\n%s" % (rch.rc, rch.err.decode("latin1")[-2000:]),
                         files={"case.json": json.dumps(dict(kind="compressor-history"))})
        else:
            cr.coverage["compressor_histories"] = {k_: jch[k_] for k_ in ("configurations", "sequences", "do_block_calls", "skipped")}
            if jch["mismatches"]:
                cr.violation("C02|compressor-history|" + jch["first"].split(":")[0], "%d block sequences give a result that depends on what the compressor instance processed before; first: %s" % (
                    jch["mismatches"], jch["first"]), files={"case.json": json.dumps(dict(kind="compressor-history", first=jch["first"]))})

        # ---- 3. environment: full product of clock x TZ x locale x umask x cwd
        n_env = 0
        wd = os.path.join(sd, "cfg_rich")
        G['wd'] = wd
        env_sets = list(itertools.product((0, 3155760000), ("UTC", "Asia/Kolkata", "America/St_Johns"), ("C", "C.utf8", "POSIX"), (0o000, 0o022, 0o077), ("/", wd)))
        if cr.quick:
            env_sets = env_sets[::3]

        res3 = pmap(run_env_job, [(t, e) for t in ("gensquashfs", "tar2sqfs") for e in env_sets], procs=8)
        seen = {}
        for tool, e, rc, sh, err in res3:
            n_env += 1
            seen.setdefault(tool, {}).setdefault((rc, sh), []).append(e)
        for tool, d in seen.items():
            if len(d) > 1:
                groups = sorted(d.items(), key=lambda kv: -len(kv[1]))
                cr.violation("C02|environment|%s" % tool, "%s: %d different results over %d environments; e.g. %r vs %r" % (
                    tool, len(d), sum(len(v) for v in d.values()), groups[0][1][0], groups[1][1][0]),
                    files={"case.json": json.dumps(dict(kind="environment", tool=tool, a=groups[0][1][0], b=groups[1][1][0]))})
        cr.sample(dict(kind="environment", product="clock{0,2070} x TZ{UTC,Asia/Kolkata,America/St_Johns} x LC_ALL{C,C.utf8,POSIX} x umask{000,022,077} x cwd{/,scratch}", runs=n_env))

        cr.coverage.update(states=tot["states"], transitions=tot["transitions"], traces_validated_against_impl=tot["executions"],
                           evaluations=tot["executions"] + n_cfg + n_env, distinct_nontrivial=len([p for p in per if p["completed"] is not None]) + n_cfg + n_env,
                           schedule_configurations=len(per), schedule_configurations_complete=ncomplete, per_schedule_configuration=per,
                           cli_configuration_runs=n_cfg, environment_runs=n_env,
                           rule="(1) For each (workers, backlog, file scenario) the real block processor + thread pool run under the controlled scheduler with preemption bounds 0,1,2 "
                                "and then unbounded; every execution's output bytes, inodes and fragment table are compared with the serial-pool run (computed in the same process). "
                                "(2) Every (-j,-Q) of the grid and 4 CPU-affinity masks (default -j) per input x tool x compressor vs the image of the NO_THREAD_IMPL build. "
                                "(3) Full product of clock x TZ x locale x umask x cwd. distinct_nontrivial = schedule configurations completed at some bound + CLI runs + environment runs.")
        cr.assumptions += ["schedules at synchronisation-operation granularity; toy RLE compressor and 32-byte blocks in the schedule harness",
                           "each full-size CLI run contributes one OS schedule; the for-all-schedules claim rests on dimension 1"]
    return cr.finish()


if __name__ == "__main__":
    main_wrapper(main)
