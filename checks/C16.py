#!/usr/bin/env python3
"""C16 — describe round trip: for every name / symlink target over a quoting-relevant alphabet (all strings up to a length bound)
gensquashfs(dir) -> rdsquashfs --describe [+ --unpack-root] + rdsquashfs --unpack-path / -> gensquashfs --pack-file must rebuild the tree."""
import os, sys, json, shutil, tempfile, itertools
sys.path.insert(0, os.path.dirname(os.path.dirname(os.path.abspath(__file__))))
from vlib.common import *
from vlib import build, treegen, packcheck, sqfsck
from vlib.treegen import E

SCR = None
T = {}
SIGMA = [b"a", b" ", b"\t", b'"', b"\\", b"#", b"'", b"\xe9"]


def strings(maxlen, alphabet=SIGMA):
    for n in range(1, maxlen + 1):
        for t in itertools.product(alphabet, repeat=n):
            yield b"".join(t)


def classify(s):
    cls = []
    for ch, nm in ((b" ", "space"), (b"\t", "tab"), (b'"', "quote"), (b"\\", "backslash"), (b"#", "hash"), (b"'", "apostrophe"), (b"\xe9", "highbyte"),
                   (b"\r", "cr"), (b"\v", "vt"), (b"\f", "ff")):
        if ch in s:
            cls.append(nm)
    if not cls and any(c < 0x20 or c == 0x7f for c in s):
        cls.append("control")
    if not cls and any(c >= 0x80 for c in s):
        cls.append("highbyte")
    return "+".join(cls) or "plain"


def evaluate(case):
    names, targets, uroot = case["names"], case["targets"], case["unpack_root"]
    wd = tempfile.mkdtemp(prefix="c", dir=SCR)
    try:
        spec = [E(b"f", "dir", 0o755), E(b"d", "dir", 0o755), E(b"l", "dir", 0o755), E(b"n", "dir", 0o755)]
        for i, nm in enumerate(names):
            spec.append(E(b"f/" + nm, "file", 0o640, 3, 4, content=b"content of " + nm))
            spec.append(E(b"d/" + nm, "dir", 0o751, 5, 6))
            spec.append(E(b"d/" + nm + b"/child", "file", 0o600, content=b"child"))
            spec.append(E(b"n/" + nm, "chr", 0o620, 0, 7, dev=(4, 5 + i)))
        for an, am, au, ag in case.get("attrs", []):
            spec.append(E(b"f/" + an, "file", am, au, ag, content=b"attrs of " + an))
            spec.append(E(b"d/" + an, "dir", am, ag, au))
        for dn, kind, mj, mn in case.get("devs", []):
            spec.append(E(b"n/" + dn, kind, 0o600, 0, 0, dev=(mj, mn)))
        for i, tg in enumerate(targets):
            nm = names[i % len(names)] if names else b"x"
            spec.append(E(b"l/%d" % i + nm, "slink", 0o777, 1, 2, target=tg))
        src = os.path.join(wd, "src")
        sk = treegen.render_dir(spec, src)
        if sk:
            return dict(status="skipped", why=str(sk[:2]))
        img1 = os.path.join(wd, "one.sqfs")
        r = run_tool([T["gensquashfs"], "-q", "-c", "gzip", "-b", "4096", "-D", src, img1], timeout=60)
        label = "names %r targets %r unpack-root %r" % (names, targets, uroot)

        def viol(fp, what, extra=None):
            files = {"case.json": json.dumps(dict(names=[n.decode("latin1") for n in names], targets=[t.decode("latin1") for t in targets], unpack_root=uroot,
                                                      devs=[[d[0].decode("latin1")] + list(d[1:]) for d in case.get("devs", [])],
                                                      attrs=[[a_[0].decode("latin1")] + list(a_[1:]) for a_ in case.get("attrs", [])]))}
            if extra:
                files.update(extra)
            return dict(status="violation", fp=fp, what=label + "\n" + what, files=files)
        if r.rc != 0 or r.crashed:
            return viol("C16|first-pack-fails", "rc=%d %s" % (r.rc, r.err.decode("latin1")[-500:]))
        im1, err = packcheck.decode(img1)
        if im1 is None:
            return viol("C16|first-image-undecodable", err)
        # the source image must hold the input tree (otherwise the round trip below compares two equally wrong images)
        exp = treegen.expected_tree(spec, mode="packdir")
        d0 = treegen.diff_trees(exp, sqfsck.canon_tree(im1), ignore=("mtime", "xattrs"))
        if d0 or im1.violations:
            return viol("C16|source-image-wrong", "gensquashfs --pack-dir did not produce the input tree, the describe round trip cannot be judged: %s %s" % (d0[:4], im1.violations[:2]))
        work = os.path.join(wd, "work")
        os.makedirs(work)
        argv_d = [T["rdsquashfs"], "-d"] + (["-p", uroot] if uroot else []) + [img1]
        rd = run_tool(argv_d, timeout=60, cwd=work)
        if rd.crashed or rd.rc != 0:
            return viol("C16|describe-fails|" + (rd.crash_fingerprint() if rd.crashed else "rc"), "rdsquashfs -d rc=%d %s" % (rd.rc, rd.err.decode("latin1")[-500:]))
        listing = rd.out
        open(os.path.join(work, "listing.txt"), "wb").write(listing)
        unp = uroot if uroot else "unp"
        ru = run_tool([T["rdsquashfs"], "-q", "-u", "/", "-p", unp, img1], timeout=60, cwd=work)
        if ru.crashed or ru.rc != 0:
            return viol("C16|unpack-fails", "rdsquashfs -u rc=%d %s" % (ru.rc, ru.err.decode("latin1")[-500:]), {"listing.txt": listing})
        img2 = os.path.join(wd, "two.sqfs")
        # with --unpack-root the listing carries locations relative to the directory rdsquashfs ran in; without, the image path is used relative to the pack dir
        packdir = work if uroot else os.path.join(work, unp)
        r2 = run_tool([T["gensquashfs"], "-q", "-c", "gzip", "-b", "4096", "-F", os.path.join(work, "listing.txt"), "-D", packdir, img2], timeout=60, cwd=work)

        def blame(diff_path=None):
            # which ingredient: classify the first name/target containing a special character
            specials = [classify(x) for x in list(names) + list(targets) if classify(x) != "plain"]
            return specials[0] if specials else "plain"
        if r2.crashed:
            return viol("C16|repack-crash|" + r2.crash_fingerprint(), r2.err.decode("latin1")[-1500:], {"listing.txt": listing})
        if r2.rc != 0:
            el = r2.err.decode("latin1")
            kind = "target" if (targets and not any(classify(n) != "plain" for n in names)) else ("location" if uroot and classify(uroot.encode()) != "plain" and not any(classify(n) != "plain" for n in names) else "name")
            return viol("C16|listing-rejected|%s|%s" % (kind, blame()), "gensquashfs --pack-file refuses the describe output: %s\nlisting:\n%s" % (el[-300:], listing.decode("latin1")[:600]), {"listing.txt": listing})
        im2, err = packcheck.decode(img2)
        if im2 is None:
            return viol("C16|second-image-undecodable", err, {"listing.txt": listing})
        if im1.violations:
            return viol("C16|first-image-invalid|" + im1.violations[0][0], "the source image is not a valid image: %s" % (im1.violations[:3],), {"listing.txt": listing})
        if im2.violations:
            return viol("C16|second-image-invalid|" + im2.violations[0][0], "the image rebuilt from the listing is not a valid image: %s\nlisting:\n%s" % (im2.violations[:3], listing.decode("latin1")[:600]), {"listing.txt": listing})
        a = sqfsck.canon_tree(im1, with_mtime=False)
        b = sqfsck.canon_tree(im2, with_mtime=False)
        a.pop(b"", None)
        b.pop(b"", None)
        diffs = treegen.diff_trees(a, b, ignore=("mtime", "xattrs"))
        if diffs:
            kind = "target" if "target" in diffs[0] else ("device" if "rdev" in diffs[0] else "name")
            return viol("C16|tree-differs|%s|%s" % (kind, blame()), "rebuilt tree differs:\n  " + "\n  ".join(diffs[:5]) + "\nlisting:\n" + listing.decode("latin1")[:600], {"listing.txt": listing})
        return dict(status="ok", sha=sha(listing))
    finally:
        shutil.rmtree(wd, ignore_errors=True)


def evaluate_boundary(case):
    """a listing longer than the 128 KiB line-reader buffer, tuned so that a chosen byte of a quoted token is the last / first byte of a buffer fill"""
    special, which, target = case["special"], case["which"], case["target"]
    wd = tempfile.mkdtemp(prefix="b", dir=SCR)
    label = "listing > 128 KiB, byte %r of name %r at listing offset %d" % (which, special, target)
    try:
        def build(padlen, nfill):
            src = os.path.join(wd, "src")
            shutil.rmtree(src, ignore_errors=True)
            os.makedirs(src)
            os.mkfifo(os.path.join(os.fsencode(src), b"0" + b"p" * padlen), 0o644)
            for i in range(nfill):
                os.mkfifo(os.path.join(os.fsencode(src), b"1f%04d" % i + b"x" * 84), 0o644)
            os.mkfifo(os.path.join(os.fsencode(src), b"2" + special), 0o600)
            for i in range(3):
                os.mkfifo(os.path.join(os.fsencode(src), b"3tail%d" % i), 0o644)
            img = os.path.join(wd, "one.sqfs")
            if os.path.exists(img):
                os.unlink(img)
            r = run_tool([T["gensquashfs"], "-q", "-c", "gzip", "-b", "4096", "-D", src, img], timeout=120)
            shutil.rmtree(src, ignore_errors=True)
            if r.rc != 0:
                raise RuntimeError("cannot pack the boundary tree: %s" % r.err[-300:])
            rd = run_tool([T["rdsquashfs"], "-d", img], timeout=60)
            if rd.rc != 0:
                raise RuntimeError("describe failed on the boundary tree: %s" % rd.err[-300:])
            return img, rd.out
        printed = b'"2' + special.replace(b"\\", b"\\\\").replace(b'"', b'\\"') + b'"'

        def where(listing):
            at = listing.find(printed)
            return None if at < 0 else at + printed.index(which)
        padlen, nfill = 100, int(target / 106) + 20
        img1, listing = build(padlen, nfill)
        off = where(listing)
        if off is None:
            return dict(status="violation", fp="C16|boundary|token-not-found", what=label + "\nprinted form %r not found in the listing" % printed, files={"listing.txt": listing[-3000:]})
        a0, a1 = listing.find(b"1f0000"), listing.find(b"1f0001")
        linelen = a1 - a0
        nfill -= (off - target + 40) // linelen        # leaves the byte a little short of the target; the pad name makes up the rest
        img1, listing = build(padlen, nfill)
        off = where(listing)
        padlen += target - off
        if not (1 <= padlen <= 250):
            raise RuntimeError("cannot tune the listing offset: pad length %d" % padlen)
        img1, listing = build(padlen, nfill)
        if where(listing) != target:
            raise RuntimeError("boundary tuning failed: byte at %s, wanted %d" % (where(listing), target))
        lf = os.path.join(wd, "listing.txt")
        open(lf, "wb").write(listing)
        img2 = os.path.join(wd, "two.sqfs")
        r2 = run_tool([T["gensquashfs"], "-q", "-c", "gzip", "-b", "4096", "-F", lf, img2], timeout=120, cwd=wd)
        files = {"case.json": json.dumps(dict(boundary=True, special=special.decode("latin1"), which=which.decode("latin1"), target=target)), "listing.txt": listing}
        if r2.crashed:
            return dict(status="violation", fp="C16|boundary|repack-crash|" + r2.crash_fingerprint(), what=label + "\n" + r2.err.decode("latin1")[-1500:], files=files)
        if r2.rc != 0:
            return dict(status="violation", fp="C16|boundary|listing-rejected", what=label + "\ngensquashfs refuses the describe output: " + r2.err.decode("latin1")[-300:], files=files)
        im1, e1 = packcheck.decode(img1)
        im2, e2 = packcheck.decode(img2)
        if im1 is None or im2 is None:
            return dict(status="violation", fp="C16|boundary|undecodable", what=label + "\n%s %s" % (e1, e2), files=files)
        a = sqfsck.canon_tree(im1, with_mtime=False)
        b = sqfsck.canon_tree(im2, with_mtime=False)
        a.pop(b"", None)
        b.pop(b"", None)
        diffs = treegen.diff_trees(a, b, ignore=("mtime", "xattrs"))
        if diffs:
            return dict(status="violation", fp="C16|boundary|tree-differs", what=label + "\nrebuilt tree differs:\n  " + "\n  ".join(diffs[:5]), files=files)
        return dict(status="ok", sha=sha(listing))
    finally:
        shutil.rmtree(wd, ignore_errors=True)


def main():
    global SCR
    cr = CheckRun("C16", "exploration", default_budget=(420, 3000))
    with build.Scratch("C16") as sd:
        SCR = sd
        T.update(build.build_tools(build.variant("asan"), os.path.join(sd, "bin"), tools=["gensquashfs", "rdsquashfs"]))
        if cr.replay:
            c = json.load(open(os.path.join(cr.replay, "case.json")))
            if c.get("boundary"):
                print(evaluate_boundary(dict(special=c["special"].encode("latin1"), which=c["which"].encode("latin1"), target=c["target"])))
                return 1
            print(evaluate(dict(names=[n.encode("latin1") for n in c["names"]], targets=[t.encode("latin1") for t in c["targets"]], unpack_root=c["unpack_root"],
                                devs=[(d[0].encode("latin1"), d[1], d[2], d[3]) for d in c.get("devs", [])],
                                attrs=[(a_[0].encode("latin1"), a_[1], a_[2], a_[3]) for a_ in c.get("attrs", [])])))
            return 1
        L = 2 if cr.quick else 3
        names = list(strings(L))
        names = [n for n in names if n not in (b".", b"..")]
        tgts = [t for t in strings(2, SIGMA + [b"/"])]
        uroots = [None, "out", "o ut", 'o"ut'] if cr.quick else [None, "out", "o ut", 'o"ut', "o\\ut", "o\tut"]
        cases = []
        # one name per image (precise blame), every unpack-root variant
        for nm in names:
            for ur in (uroots if len(nm) <= 2 else uroots[:3]):
                cases.append(dict(names=[nm], targets=[], unpack_root=ur))
        # names around the pseudo entries '.' and '..': longer names that merely begin or end with dots, alone, together, and as directories with children
        DOTS = [b"...", b"..a", b".a", b"a..", b".. ", b"..\"", b"....", b". .", b"..data", b".a."]
        for nm in DOTS:
            for ur in uroots[:2]:
                cases.append(dict(names=[nm], targets=[], unpack_root=ur))
        cases.append(dict(names=DOTS, targets=[b"..", b"...", b"./..a"], unpack_root="out"))
        # directories with children whose names start with bytes >= 0x80, next to ASCII siblings (the listing names the directory first, its children later:
        # the parent is looked up again among siblings that sort before and after it)
        for ur in uroots[:2]:
            cases.append(dict(names=[b"\xc3\xa9t\xc3\xa9", b"a", b"\xff last", b"z", b"\x80", b"Z"], targets=[b"\xc3\xa9", b"a"], unpack_root=ur))
        # every symlink target of length <= 2, on plain names
        for tg in tgts:
            for ur in uroots[:2]:
                cases.append(dict(names=[b"k"], targets=[tg], unpack_root=ur))
        # the full byte range (except NUL, '/', newline): every byte value first, last, in the middle and alone, in names and in symlink targets
        for v in range(1, 256):
            if v in (0x2f, 0x0a):
                continue
            ch = bytes([v])
            nms = [n for n in (ch + b"a", b"a" + ch, b"a" + ch + b"a", ch) if n not in (b".", b"..")]
            for ur in (None, "out"):
                cases.append(dict(names=nms, targets=nms, unpack_root=ur))
        # numeric fields: device numbers over the boundaries of the 12-bit major / 20-bit minor encoding, both device kinds; permission bits and owners
        MAJ, MIN = [0, 1, 255, 256, 4095], [0, 1, 255, 256, 65535, 65536, 70000, 1048575]
        for kind in ("chr", "blk"):
            for ur in (None, "out"):
                cases.append(dict(names=[b"k"], targets=[], unpack_root=ur, devs=[(b"%s_%d_%d" % (kind.encode(), mj, mn), kind, mj, mn) for mj in MAJ for mn in MIN]))
        MODES, IDS = [0, 0o1, 0o644, 0o1000, 0o2000, 0o4000, 0o4755, 0o7777], [0, 1, 65535, 65536, (1 << 31) - 1, 1 << 31, (1 << 32) - 2]
        for ur in (None, "out"):
            cases.append(dict(names=[b"k"], targets=[], unpack_root=ur, attrs=[(b"m%o_u%d" % (m, u), m, u, IDS[(i + j) % len(IDS)]) for i, m in enumerate(MODES) for j, u in enumerate(IDS)]))
        if not cr.quick:
            # 16 names per image
            for i in range(0, len(names), 16):
                cases.append(dict(names=names[i:i + 16], targets=tgts[i % len(tgts):i % len(tgts) + 8], unpack_root="out"))
        cr.coverage["planned_cases"] = len(cases)
        n_eval = 0
        seen = set()
        chunk = 2000
        for off in range(0, len(cases), chunk):
            if cr.expired():
                cr.cap("deadline after %d of %d" % (off, len(cases)))
                break
            for c, r in zip(cases[off:off + chunk], pmap(evaluate, cases[off:off + chunk])):
                if r["status"] == "skipped":
                    cr.note("skipped %r: %s" % (c["names"], r["why"]))
                    continue
                n_eval += 1
                if r["status"] == "violation":
                    cr.violation(r["fp"], r["what"], files=r["files"], replay_sh="python3 /verif/checks/C16.py --replay \"$PWD\"")
                    continue
                seen.add(r["sha"])
                if len(cr.coverage["samples"]) < 5 and classify(c["names"][0]) not in ("plain", "highbyte"):
                    cr.sample({"names": [n.decode("latin1") for n in c["names"]], "targets": [t.decode("latin1") for t in c["targets"]], "unpack_root": c["unpack_root"]})
        # listings longer than the line reader's buffer
        bcases = [dict(special=sp_, which=wh_, target=tg_) for sp_, wh_ in ((b"a\rb", b"\r"), (b'a"b', b'"'), (b'a"b', b"\\"), (b"a b", b" "), (b"a\\b", b"\\"))
                  for tg_ in ((131071, 131072) if cr.quick else (131070, 131071, 131072, 131073, 262143, 262144))]
        for c, r in zip(bcases, pmap(evaluate_boundary, bcases)):
            n_eval += 1
            if r["status"] == "violation":
                cr.violation(r["fp"], r["what"], files=r["files"], replay_sh="python3 /verif/checks/C16.py --replay \"$PWD\"")
            else:
                seen.add(r["sha"])
        cr.coverage["buffer_boundary_cases"] = len(bcases)
        cr.coverage.update(evaluations=n_eval, distinct_nontrivial=len(seen), alphabet=[s.decode("latin1") for s in SIGMA], max_name_length=L,
                           rule="Names = all strings of length 1..%d over {a, space, tab, \", \\, #, ', 0xE9}; each name is used for a file, a directory with a child and a device (original image "
                                "packed from a real directory so no pack-file quoting is involved in creating it); symlink targets = all strings of length <=2 over the alphabet plus '/'; "
                                "--unpack-root in {none, out, 'o ut', 'o\"ut', ...}. distinct = distinct describe listings that round-tripped. Oracle: gensquashfs --pack-file accepts the "
                                "listing and the decoded tree (paths, types, modes, owners, targets, device numbers, contents) equals the original; the root inode's own attributes are not compared "
                                "(the listing has no line for '/')." % L)
        cr.assumptions += ["names contain no newline, NUL or '/' (as the property states)", "SQFSCK decoder"]
    return cr.finish()


if __name__ == "__main__":
    main_wrapper(main)
