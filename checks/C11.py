#!/usr/bin/env python3
"""C11 — independence from host enumeration order: every tuple of per-directory permutations of the entries returned by
readdir (injected under the real gensquashfs) must produce the same image bytes."""
import os, sys, json, shutil, tempfile, itertools, math
sys.path.insert(0, os.path.dirname(os.path.dirname(os.path.abspath(__file__))))
from vlib.common import *
from vlib import build, envrun, treegen
from vlib.treegen import E, content_pattern

T = {}
B = 4096


def tree_T1():
    return "T1", [E(b"a", "file", content=b"aaa"), E(b"b", "file", content=content_pattern("b", B + 5)), E(b"c", "slink", 0o777, target=b"a"),
                  E(b"d", "dir", 0o755), E(b"d/x", "file", content=b"xx"), E(b"d/y", "fifo", 0o600)], {"root": 4, "d": 2}


def tree_T2():
    # multiply-linked files: a == d/x, b == c, fifo p == q
    return "T2", [E(b"a", "file", content=content_pattern("a", 100)), E(b"b", "file", content=b"bb"), E(b"c", "link", target=b"b"),
                  E(b"d", "dir", 0o755), E(b"d/x", "link", target=b"a"), E(b"d/y", "file", content=b"y"),
                  E(b"p", "fifo", 0o600), E(b"q", "link", target=b"p")], {"root": 6, "d": 2}


def tree_T3():
    sp = []
    dirs = {"root": 3}
    for dn, k in (("u", 3), ("v", 2), ("w", 2)):
        sp.append(E(dn.encode(), "dir", 0o755))
        for i in range(k):
            sp.append(E(("%s/f%d" % (dn, i)).encode(), "file", content=content_pattern(dn + str(i), 50 + i)))
        dirs[dn] = k + 1
    # one multiply-linked file in each directory, all the same inode
    sp.append(E(b"u/h", "file", content=b"shared"))
    sp.append(E(b"v/h", "link", target=b"u/h"))
    sp.append(E(b"w/h", "link", target=b"u/h"))
    return "T3", sp, dirs


def tree_T4():
    # hard-link pair inside one directory only, where name order and readdir order can disagree
    return "T4", [E(b"m", "file", content=b"mm"), E(b"k", "link", target=b"m"), E(b"z", "link", target=b"m"), E(b"n", "file", content=b"n")], {"root": 4}


def tree_T5():
    # names whose first difference involves bytes >= 0x80 (UTF-8 and raw high bytes), multiply-linked
    return "T5", [E(b"alpha", "file", content=b"A"), E(b"\xc3\xa4lpha", "link", target=b"alpha"), E(b"\xc3\xb6mega", "link", target=b"alpha"),
                  E(b"\xff", "file", content=b"ff"), E(b"\x80x", "link", target=b"\xff"), E(b"zz", "file", content=b"z")], {"root": 6}


def tree_T6():
    # a directory whose names all begin with '.', except one (skeleton of a home directory); multiply-linked hidden files, a hidden directory holding a link
    return "T6", [E(b".bashrc", "file", content=b"rc"), E(b".profile", "link", target=b".bashrc"), E(b".zz", "file", content=b"z"),
                  E(b"README", "file", content=b"readme"), E(b".cfg", "dir", 0o755), E(b".cfg/..x", "link", target=b".zz"), E(b".cfg/.y", "file", content=b"y")], {"root": 5, ".cfg": 2}


def tree_T7():
    # names that merely begin with '..' (Kubernetes volume style: ..data, ..2024_01_01) next to the real '.' and '..', multiply-linked
    return "T7", [E(b"..2024_01_01", "file", content=b"payload"), E(b"..data", "link", target=b"..2024_01_01"), E(b"..chk", "file", content=b"chk"),
                  E(b"config", "file", content=b"cfg")], {"root": 4}


def tree_T8():
    # names that sort before / between / right after '.' and '..' in byte order: '+x' < '-y' < '.' < '.-' < '..' < '...'
    return "T8", [E(b"+x", "file", content=b"plus"), E(b"...", "link", target=b"+x"), E(b".-", "file", content=b"dotdash"), E(b"-y", "link", target=b".-")], {"root": 4}


def option_sets(tier):
    S = [("default", [], None), ("-k", ["-k"], None), ("--no-hard-links", ["-H"], None)]
    if tier == "thorough":
        S += [("-o", ["-o"], None), ("-k -x", ["-k", "-x"], None)]
    S += [("glob", [], b"glob / * * * .\n"), ("glob -nohardlinks", [], b"glob / * * * -nohardlinks .\n")]
    if tier == "thorough":
        S += [("glob -name", [], b"glob / 0644 1 2 -name \"[a-z]\" .\n"), ("glob -keeptime", [], b"glob / * * * -keeptime .\n")]
    return S


def run_one(a):
    wd, root, opts, packfile, plan = a
    d = tempfile.mkdtemp(prefix="r", dir=wd)
    try:
        img = os.path.join(d, "o.sqfs")
        argv = [T["gensquashfs"], "-q", "-b", "4096", "-c", "gzip"] + opts
        if packfile is not None:
            pf = os.path.join(d, "pack.txt")
            open(pf, "wb").write(packfile)
            argv += ["-F", pf, "-D", root]
        else:
            argv += ["-D", root]
        argv += [img]
        r, _ = envrun.run_env(argv, plan=plan, want_log=False, timeout=60)
        return plan, r.rc, (sha_file(img) if os.path.exists(img) else None), r.crashed, r.err[-600:]
    finally:
        shutil.rmtree(d, ignore_errors=True)


def main():
    cr = CheckRun("C11", "fault_enumeration", default_budget=(300, 2400))
    with build.Scratch("C11") as sd:
        tools = build.build_tools(build.variant("envwrap"), os.path.join(sd, "bin"), tools=["gensquashfs"])
        T.update(tools)
        trees = [tree_T1(), tree_T4(), tree_T6(), tree_T7(), tree_T8(), tree_T5(), tree_T2()] + ([tree_T3()] if not cr.quick else [])
        if cr.replay:
            case = json.load(open(os.path.join(cr.replay, "case.json")))
            tr = {t[0]: t for t in trees + [tree_T3()]}[case["tree"]]
            root = os.path.join(sd, "root")
            treegen.render_dir(tr[1], root)
            for plan in case["plans"]:
                print(run_one((sd, root, case["opts"], case["packfile"].encode("latin1") if case["packfile"] else None, plan))[:3])
            return 1
        n_eval = 0
        distinct = set()
        per = []
        for tname, spec, dirs in trees:
            wd = os.path.join(sd, tname)
            os.makedirs(wd)
            root = os.path.join(wd, "root")
            sk = treegen.render_dir(spec, root)
            if sk:
                cr.note("tree %s: could not materialise %s" % (tname, sk[:2]))
            # all tuples of per-directory permutations
            names = sorted(dirs)
            ranges = [range(math.factorial(dirs[n])) for n in names]
            total = 1
            for r_ in ranges:
                total *= len(r_)
            for oname, opts, packfile in option_sets(cr.tier):
                if cr.expired():
                    cr.cap("deadline before %s/%s" % (tname, oname))
                    break
                if total > 6000 and cr.quick:
                    # quick: all permutations of the root x identity below, plus all permutations below x identity root
                    plans = set()
                    for i, n in enumerate(names):
                        for c in ranges[i]:
                            plans.add("perm:%s=%d" % (n, c))
                    plans = sorted(plans)
                    cr.cap("tree %s quick tier: %d single-directory permutations instead of the %d-tuple product" % (tname, len(plans), total))
                else:
                    plans = [";".join("perm:%s=%d" % (n, c) for n, c in zip(names, tup)) for tup in itertools.product(*ranges)]
                # '.' and '..' taking part in the permutation (the host decides where they appear): per directory, all (k+2)! orders when that is
                # <= 5040, else every order in which exactly one element is displaced (moved forward or backward)
                dplans = []
                for n in names:
                    m = dirs[n] + 2
                    if math.factorial(m) <= 5040 and (not cr.quick or math.factorial(m) <= 720):
                        dplans += ["permd:%s=%d" % (n, c) for c in range(1, math.factorial(m))]
                    else:
                        codes = set()
                        for i in range(m - 1):
                            for j in range(i + 1, m):
                                codes.add((j - i) * math.factorial(m - 1 - i))                             # element j moved forward to position i
                                codes.add(sum(math.factorial(m - 1 - t_) for t_ in range(i, j)))          # element i moved back to position j
                        dplans += ["permd:%s=%d" % (n, c) for c in sorted(codes)]
                plans = [""] + plans + dplans         # "" = the host's natural order, no interposition
                res = pmap(run_one, [(wd, root, opts, packfile, p) for p in plans])
                shas = {}
                for plan, rc, sh, crashed, err in res:
                    n_eval += 1
                    distinct.add((tname, oname, plan))
                    if crashed or rc != 0:
                        cr.violation("C11|tool-fails|%s" % oname, "tree %s options %s plan %r: rc=%d %s" % (tname, oname, plan, rc, err.decode("latin1")),
                                     files={"case.json": json.dumps(dict(tree=tname, opts=opts, packfile=packfile.decode("latin1") if packfile else None, plans=[plan]))})
                        continue
                    shas.setdefault(sh, []).append(plan)
                if len(shas) > 1:
                    groups = sorted(shas.values(), key=len, reverse=True)
                    ex = [g[0] for g in groups[:3]]
                    hl = "hardlinks" if any(e["type"] == "link" for e in spec) else "no-hardlinks"
                    cr.violation("C11|image-depends-on-order|%s" % hl,
                                 "tree %s, options %s: %d different images over %d enumeration orders; e.g. plans %r" % (tname, oname, len(shas), len(plans), ex),
                                 files={"case.json": json.dumps(dict(tree=tname, opts=opts, packfile=packfile.decode("latin1") if packfile else None, plans=ex))},
                                 replay_sh="python3 /verif/checks/C11.py --replay \"$PWD\"")
                per.append(dict(tree=tname, options=oname, directories=dirs, orders=len(plans), distinct_images=len(shas)))
        for p in per[:6]:
            cr.sample(p)
        cr.coverage.update(evaluations=n_eval, distinct_nontrivial=len(distinct), runs=per,
                           rule="For each tree (plain; hard links across and inside directories; three directories sharing one inode) and option set (default, -k, -H, -o, "
                                "glob lines with -nohardlinks/-name/-keeptime) gensquashfs is run once per tuple of per-directory permutations of readdir's answer (all d1! x d2! x ... "
                                "tuples; the host's natural order is included), and per directory with '.' and '..' taking part in the permutation: all (k+2)! orders (<= 720 quick / 5040 thorough), else every order with exactly one displaced element. distinct = distinct (tree, options, permutation tuple). Oracle: one image sha256 per (tree, options).")
        cr.assumptions += ["readdir is the only source of host order (opendir/fdopendir + readdir in dir_unix.c)"]
    return cr.finish()


if __name__ == "__main__":
    main_wrapper(main)
