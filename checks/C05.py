#!/usr/bin/env python3
"""C05 — untrusted images: deviation-bounded, structure-aware enumeration. Base images are built by an independent writer with a
field map; every on-disk field x a value alphabet (deviation 1), pairs on the smallest images (deviation 2), every byte x {^1,^0x80,0,0xFF}
and every truncation length are offered to all reader tools built with ASan. Oracle: terminates, no sanitizer report, no signal, no abort."""
import os, sys, json, shutil, tempfile, itertools, struct, resource
sys.path.insert(0, os.path.dirname(os.path.dirname(os.path.abspath(__file__))))
from vlib.common import *
from vlib import build, mkimg, baseimgs, sqfsck

SCR = None
T = {}
BASE = {}      # name -> (img bytes, fields, paths list)


def value_alphabet(img, fields, name, orig, width):
    mx = (1 << (8 * width)) - 1
    vals = {0, 1, orig + 1, orig - 1, mx, mx - 1, 1 << (8 * width - 1), (1 << (8 * width - 1)) - 1, 0x8000, 0x8001, 0x7FFF, 1 << 24, (1 << 24) - 1, (1 << 24) | 1,
            8192, 8193, 8191, 4096, 4097, 65535, 65536, 256, 255, 257, len(img), len(img) - 1, len(img) + 1, 96, 95,
            (1 << 32) - orig if width >= 4 else 0, (1 << 32) - 1, (1 << 31), orig ^ 0x8000, orig ^ (1 << 24), orig | 0x8000, orig * 2, orig // 2}
    # every other value of a field of the same role (references / offsets / numbers / indices): loops, aliasing, type confusion
    role = name.split(".")[-1].rstrip("0123456789")
    for n2, (o2, w2) in fields.items():
        if n2 != name and n2.split(".")[-1].rstrip("0123456789") == role:
            vals.add(int.from_bytes(img[o2:o2 + w2], "little"))
    if role in ("root", "ref") or name.startswith("export"):
        for n2, (o2, w2) in fields.items():
            if n2.startswith("export") or n2 == "super.root":
                vals.add(int.from_bytes(img[o2:o2 + w2], "little"))
    # table start offsets for pointer fields
    if name.startswith("super.") and width == 8:
        for n2 in ("super.id_table", "super.xattr_table", "super.inode_table", "super.dir_table", "super.frag_table", "super.export_table", "super.bytes_used"):
            vals.add(int.from_bytes(img[fields[n2][0]:fields[n2][0] + 8], "little"))
            vals.add(int.from_bytes(img[fields[n2][0]:fields[n2][0] + 8], "little") + 2)
    if role == "type":
        vals.update(range(0, 16))
    # length fields: values that put the end of the record they describe a few bytes before / exactly at / just behind the end of the table it lives in
    # (the bytes that follow the variable part - e.g. the xattr index of an extended symlink - are then read across the end of the table)
    if role in ("target_size", "file_size", "index_count", "name_size", "size", "count") and "super.bytes_used" in fields:
        off = fields[name][0]
        ends = sorted(int.from_bytes(img[fields[n2][0]:fields[n2][0] + 8], "little") for n2 in
                      ("super.id_table", "super.xattr_table", "super.inode_table", "super.dir_table", "super.frag_table", "super.export_table", "super.bytes_used") if n2 in fields)
        nxt = [e for e in ends if e > off and e != (1 << 64) - 1]
        if nxt:
            rem = nxt[0] - (off + width)
            vals.update(rem + d for d in range(-9, 3) if rem + d >= 0)
    out = sorted(v & mx for v in vals if v >= 0)
    return [v for v in dict.fromkeys(out) if v != orig]


def load_c10():
    import importlib.util
    spec = importlib.util.spec_from_file_location("c10", os.path.join(VERIF, "checks", "C10.py"))
    m = importlib.util.module_from_spec(spec)
    spec.loader.exec_module(m)
    return m


OPTIME = {}
import multiprocessing as _mp
HANGS = _mp.Value("i", 0)       # hangs confirmed with the long limit so far (shared with the forked workers)


def warm_first(ops):
    """the first operation of each keyword (it fills that reader's cache) in front, the rest behind"""
    first, rest, seen = [], [], set()
    for o in ops:
        k = o.split()[0]
        (rest if k in seen else first).append(o)
        seen.add(k)
    return first + rest


def limit_child():
    resource.setrlimit(resource.RLIMIT_FSIZE, (64 << 20, 64 << 20))
    resource.setrlimit(resource.RLIMIT_CORE, (0, 0))


def run_reader(argv, cwd, timeout):
    e = dict(CLEAN_ENV)
    t0 = time.time()
    import subprocess, signal
    try:
        p = subprocess.Popen(argv, stdin=subprocess.DEVNULL, stdout=subprocess.DEVNULL, stderr=subprocess.PIPE, env=e, cwd=cwd,
                             start_new_session=True, preexec_fn=limit_child)
        try:
            _, err = p.communicate(timeout=timeout)
            return ToolResult(p.returncode, b"", err[-6000:], False, time.time() - t0)
        except subprocess.TimeoutExpired:
            try:
                os.killpg(p.pid, signal.SIGKILL)
            except ProcessLookupError:
                pass
            _, err = p.communicate()
            return ToolResult(-9, b"", err[-2000:], True, time.time() - t0)
    except OSError as ex:
        return ToolResult(-1, b"", str(ex).encode(), False, 0)


def operations(img_path, base_path, paths, wd, tier):
    rd, s2t, diff = T["rdsquashfs"], T["sqfs2tar"], T["sqfsdiff"]
    ops = [("rdsquashfs -l /", [rd, "-l", "/", img_path]), ("rdsquashfs -d", [rd, "-d", img_path]),
           ("sqfs2tar", [s2t, img_path]), ("rdsquashfs -u", [rd, "-q", "-u", "/", "-p", os.path.join(wd, "u1"), img_path]),
           ("rdsquashfs -u -C -O -T -X", [rd, "-q", "-u", "/", "-p", os.path.join(wd, "u2"), "-C", "-O", "-T", "-X", img_path]),
           ("sqfsdiff a b", [diff, "-a", base_path, "-b", img_path]), ("sqfsdiff b a", [diff, "-a", img_path, "-b", base_path])]
    if "reader_hist" in T and os.path.exists(base_path + ".ops"):
        # libsquashfs reader API: every sequence of <= 2 operations (derived from the valid base image) on fresh readers of the variant
        if tier == "thorough":
            ops.append(("libsquashfs-api histories<=2", [T["reader_hist"], img_path, base_path + ".ops", "enum", "2", "0", "99"]))
        else:
            # quick: every single operation, and every pair whose first operation is one of the first 10 of the file (one per keyword: inode, readdir, path, read, block, frag, stream, xattr, id, mseek)
            ops.append(("libsquashfs-api histories=1", [T["reader_hist"], img_path, base_path + ".ops", "enum", "1", "0", "99"]))
            ops.append(("libsquashfs-api histories<=2 (10 first ops)", [T["reader_hist"], img_path, base_path + ".ops2", "enum", "2", "0", "10"]))
    for p in paths[:6]:
        ops.append(("rdsquashfs -s", [rd, "-s", p, img_path]))
        ops.append(("rdsquashfs -x", [rd, "-x", p, img_path]))
        ops.append(("rdsquashfs -c", [rd, "-c", p, img_path]))
    if tier == "thorough":
        ops += [("sqfs2tar --no-xattr", [s2t, "-X", img_path]), ("sqfs2tar -d", [s2t, "-d", paths[0].strip("/").split("/")[0] if paths else "x", img_path]),
                ("rdsquashfs -l sub", [rd, "-l", paths[-1], img_path])]
    return ops


def evaluate(a):
    bname, kind, desc, data, tier = a
    wd = tempfile.mkdtemp(prefix="v", dir=SCR)
    try:
        ip = os.path.join(wd, "img.sqfs")
        with open(ip, "wb") as f:
            f.write(data)
        base_path = BASE[bname][3]
        found = []
        for opname, argv in operations(ip, base_path, BASE[bname][2], wd, tier):
            t_op = time.time()
            r = run_reader(argv, wd, 10)
            OPTIME[opname.split(" /")[0]] = OPTIME.get(opname.split(" /")[0], 0.0) + time.time() - t_op
            if r.timeout and HANGS.value >= 4:
                # four hangs were already confirmed with the long limit: report further 10 s timeouts without the long re-run
                found.append(("C05|hang|%s" % opname.split(" -")[0] + "|" + opname, opname, "does not terminate within 10 s (long re-runs stopped after 4 confirmed hangs)", argv))
                continue
            if r.timeout:
                # the API pass runs ~1000 histories in one process, each on fresh readers: a slow table load multiplies
                limit = (180 if tier == "quick" else 600) if opname.startswith("libsquashfs-api") else 60
                r = run_reader(argv, wd, limit)
                if r.timeout:
                    with HANGS.get_lock():
                        HANGS.value += 1
                    found.append(("C05|hang|%s" % opname.split(" -")[0] + "|" + opname, opname, "does not terminate within %d s" % limit, argv))
                    continue
            if r.crashed:
                found.append(("C05|%s|%s" % (r.crash_fingerprint(), opname.split()[0]), opname, r.err.decode("latin1")[-3000:], argv))
        ot = dict(OPTIME)
        OPTIME.clear()
        return bname, kind, desc, found, (data if found else None), ot
    finally:
        shutil.rmtree(wd, ignore_errors=True)


def main():
    global SCR
    cr = CheckRun("C05", "exploration", default_budget=(1200, 7200))
    with build.Scratch("C05") as sd:
        SCR = sd
        T.update(build.build_tools(build.variant("asan"), os.path.join(sd, "bin"), tools=["rdsquashfs", "sqfs2tar", "sqfsdiff", "gensquashfs"]))
        c10 = load_c10()
        T["reader_hist"] = c10.build_harness(sd)
        if cr.replay:
            ip = os.path.join(cr.replay, "image.sqfs")
            case = json.load(open(os.path.join(cr.replay, "case.json")))
            argv = [T[os.path.basename(case["argv"][0])]] + [a if not a.endswith("img.sqfs") else ip for a in case["argv"][1:]]
            if os.path.exists(os.path.join(cr.replay, "ops.txt")):
                argv = [a if ".sqfs.ops" not in a else os.path.join(cr.replay, "ops.txt") for a in argv]
            argv = [a if "/base_" not in a else ip for a in argv]
            r = run_reader(argv, sd, 150)
            print(argv, "rc", r.rc, "timeout", r.timeout)
            print(r.err.decode("latin1")[-3000:])
            return 1 if (r.crashed or r.timeout) else 0
        quick = cr.quick
        fns = baseimgs.ALL[:5] if quick else baseimgs.ALL
        for fn in fns:
            name, root, kw = fn()
            img, fields = mkimg.build(root, **kw)
            im = sqfsck.load(img)     # writer self-check: a writer bug must not masquerade as a reader bug
            if im.violations:
                raise RuntimeError("MKIMG produced an invalid base image %s: %s" % (name, im.violations[:2]))
            paths = sorted("/" + os.fsdecode(p) for p in im.tree if p)
            bp = os.path.join(sd, "base_%s.sqfs" % name)
            open(bp, "wb").write(img)
            BASE[name] = (img, fields, paths, bp)
            ops_, mops_, _ = c10.derive_ops(img)
            open(bp + ".ops", "w").write("\n".join(ops_ + mops_[:6]) + "\n")
            open(bp + ".ops2", "w").write("\n".join(warm_first(ops_ + mops_[:6])) + "\n")
            r = run_tool([T["rdsquashfs"], "-d", bp])
            if r.rc != 0:
                raise RuntimeError("rdsquashfs rejects the benign base image %s: %s" % (name, r.err[-300:]))
        # a gensquashfs-written gzip image with compressed metadata for the byte-level pass
        gz = os.path.join(sd, "gzsrc")
        os.makedirs(os.path.join(gz, "d"))
        open(os.path.join(gz, "d", "f"), "wb").write(b"hello world\n" * 50)
        os.symlink("f", os.path.join(gz, "d", "l"))
        gimg = os.path.join(sd, "base_gz.sqfs")
        run_tool([T["gensquashfs"], "-q", "-c", "gzip", "-b", "4096", "-D", gz, gimg])
        gdata = open(gimg, "rb").read()
        BASE["gz-compressed-metadata"] = (gdata, {}, ["/d", "/d/f", "/d/l"], gimg)
        ops_, mops_, _ = c10.derive_ops(gdata)
        open(gimg + ".ops", "w").write("\n".join(ops_ + mops_[:6]) + "\n")
        open(gimg + ".ops2", "w").write("\n".join(warm_first(ops_ + mops_[:6])) + "\n")

        jobs = []
        counts = {}
        # deviation 1: every field x value alphabet
        for bname, (img, fields, paths, bp) in BASE.items():
            fl = sorted(fields)
            if bname.startswith("b3") and quick:
                continue
            if bname.startswith("b5") and quick:
                # quick: the symlink inodes and the directory entries' name fields
                fl = [f for f in fl if f.split(".")[0] in ("l099", "l100", "l101", "l300", "l400") or f.endswith(".name_size")]
            if bname.startswith("b4") and quick:
                # quick: the inode of the indexed directory, its index entries and listing headers (everything else is covered by b1/b2)
                fl = [f for f in fl if f.startswith("idx.") and ".ent" not in f]
            if bname.startswith("b3"):
                # 300 identical entries: keep the fields of the first 3 and last 2 entries of the big directory
                fl = [f for f in fl if ".ent" not in f or int(f.split(".ent")[1].split(".")[0]) in (0, 1, 2, 255, 256, 298, 299) or not f.startswith("big")]
            for fname in fl:
                off, w = fields[fname]
                orig = int.from_bytes(img[off:off + w], "little")
                vals = value_alphabet(img, fields, fname, orig, w)
                if quick:
                    vals = vals[::2] if len(vals) > 24 else vals
                for v in vals:
                    jobs.append((bname, "field", "%s=%#x (was %#x)" % (fname, v, orig), mkimg.set_field(img, fields, fname, v), cr.tier))
                    counts["field"] = counts.get("field", 0) + 1
        # NUL bytes inside symlink targets (the C string ends earlier than the stored length says), alone and together with a larger stored length
        if "b5-long-symlink-targets-and-names" in BASE:
            img5, f5, _, _ = BASE["b5-long-symlink-targets-and-names"]
            for tag in ("l099", "l100", "l101", "l300", "l400"):
                o, w = f5[tag + ".target_size"]
                tlen = int.from_bytes(img5[o:o + w], "little")
                for j in (0, 1, 50, 98, 99, 100, tlen - 1):
                    if j >= tlen:
                        continue
                    d = bytearray(img5)
                    d[o + w + j] = 0
                    jobs.append(("b5-long-symlink-targets-and-names", "field", "%s target byte %d = NUL" % (tag, j), bytes(d), cr.tier))
                    counts["field"] = counts.get("field", 0) + 1
                    for ts in (tlen + 200, tlen + 1000):
                        d2 = bytearray(d)
                        d2[o:o + w] = ts.to_bytes(w, "little")
                        jobs.append(("b5-long-symlink-targets-and-names", "pair", "%s target byte %d = NUL, target_size=%d" % (tag, j, ts), bytes(d2), cr.tier))
                        counts["pair"] = counts.get("pair", 0) + 1
        # deviation 2: pairs of fields on the smallest image (inode + superblock fields), reduced alphabet
        b0img, b0f, _, _ = BASE["b0-minimal"]
        small_vals = lambda o, w: [v for v in (0, (1 << (8 * w)) - 1, o + 1, 0x8000, 1 << 24) if v != o]
        pf = [f for f in sorted(b0f) if f.startswith("f.") or f.startswith("root.") or f in ("super.root", "super.inode_table", "super.dir_table", "super.bytes_used", "super.frag_table", "super.block_size", "inode_table.blk0.hdr", "dir_table.blk0.hdr")]
        if not quick:
            for f1, f2 in itertools.combinations(pf, 2):
                o1, w1 = b0f[f1]
                o2, w2 = b0f[f2]
                for v1 in small_vals(int.from_bytes(b0img[o1:o1 + w1], "little"), w1)[:3]:
                    for v2 in small_vals(int.from_bytes(b0img[o2:o2 + w2], "little"), w2)[:3]:
                        d = mkimg.set_field(mkimg.set_field(b0img, b0f, f1, v1), b0f, f2, v2)
                        jobs.append(("b0-minimal", "pair", "%s=%#x,%s=%#x" % (f1, v1, f2, v2), d, cr.tier))
                        counts["pair"] = counts.get("pair", 0) + 1
        # byte level: every metadata byte of the smallest images x 4 values; every truncation length
        for bname in ("b0-minimal", "gz-compressed-metadata"):
            img = BASE[bname][0]
            used = struct.unpack_from("<Q", img, 40)[0]
            # data area of b0 is opaque payload: skip it (mutating file contents cannot affect parsing of uncompressed data)
            inode_tbl = struct.unpack_from("<Q", img, 64)[0]
            rng = list(range(0, 96)) + list(range(inode_tbl if bname.startswith("b0") else 96, used))
            if quick:
                rng = rng[::3] if bname.startswith("gz") else rng
            for off in rng:
                for v in ((img[off] ^ 1, img[off] ^ 0x80, 0, 0xFF) if not quick else (img[off] ^ 1, 0xFF)):
                    if v == img[off]:
                        continue
                    d = bytearray(img)
                    d[off] = v
                    jobs.append((bname, "byte", "byte %d=%#x (was %#x)" % (off, v, img[off]), bytes(d), cr.tier))
                    counts["byte"] = counts.get("byte", 0) + 1
            for ln in (range(0, used + 1, 7 if quick else 1)):
                if ln < 96 and quick and ln % 4:
                    continue
                jobs.append((bname, "truncate", "truncated to %d bytes" % ln, bytes(img[:ln]), cr.tier))
                counts["truncate"] = counts.get("truncate", 0) + 1
        if not quick:
            # breadth before depth: every single-field variant first with the quick tier's per-variant work (all tools, API histories of depth 1 + warm pairs),
            # so that a deadline in the deep pass below never leaves a field variant of a later base image untouched
            jobs = [j[:4] + ("quick",) for j in jobs if j[1] == "field"] + jobs
            counts["field (breadth pass)"] = sum(1 for j in jobs if j[4] == "quick")
        cr.coverage["planned_variants"] = len(jobs)
        cr.coverage["variants_by_kind"] = counts
        n_eval = 0
        optime = {}
        nops = 0
        seen = set()
        chunk = 1500
        for off in range(0, len(jobs), chunk):
            if cr.time_left() < 30:
                cr.cap("deadline after %d of %d variant runs (order: breadth pass over all field variants, then deep pass: fields, pairs, bytes, truncations)" % (off, len(jobs)))
                break
            for bname, kind, desc, found, data, ot in pmap(evaluate, jobs[off:off + chunk]):
                n_eval += 1
                for k, v in ot.items():
                    optime[k] = optime.get(k, 0.0) + v
                seen.add((bname, desc))
                for fp, opname, what, argv in found:
                    extra = {"ops.txt": open([a for a in argv if ".ops" in a][0], "rb").read()} if opname.startswith("libsquashfs-api") else {}
                    cr.violation(fp, "base image %s, %s, operation `%s`\n%s" % (bname, desc, opname, what),
                                 files={**extra, "image.sqfs": data, "case.json": json.dumps(dict(base=bname, variant=desc, op=opname, argv=[os.path.basename(argv[0])] + argv[1:]))},
                                 replay_sh="python3 /verif/checks/C05.py --replay \"$PWD\"")
        cr.sample({"base": "b1-all-basic-types", "variant": jobs[len(jobs) // 7][2] if jobs else None})
        cr.sample({"base": jobs[-1][0], "variant": jobs[-1][2]} if jobs else {})
        nops_per = len(operations("x", "y", ["/a"] * 6, "w", cr.tier))
        cr.coverage["cpu_seconds_by_operation"] = {k: round(v, 1) for k, v in sorted(optime.items(), key=lambda kv: -kv[1])}
        cr.coverage.update(evaluations=n_eval, distinct_nontrivial=len(seen), reader_operations_per_variant=nops_per,
                           base_images=list(BASE),
                           rule="Base images (minimal; every basic inode type; every extended type + xattrs + export table; fragments + sparse + 300-entry directory; a gzip image with "
                                "compressed metadata) come from an independent writer that returns the offset/width of every on-disk field. Deviation 1: every field x {0,1,orig+-1,all-ones,"
                                "sign bit,0x8000/1<<24 toggles, 8191..8193, 4096/4097, 65535/65536, 255..257, file length +-1, 32-bit wrap complements, every other value of a same-role field "
                                "(aliasing, loops, type confusion), all table offsets for superblock pointers, all 16 type codes}. Deviation 2 (thorough): all pairs over inode+superblock "
                                "fields of the minimal image x 3x3 values. Byte level: every metadata byte x {^1,^0x80,0,0xFF}; truncation at every length. Each variant is offered to "
                                "rdsquashfs -l/-d/-s/-x/-c/-u (with and without -C -O -T -X), sqfs2tar, sqfsdiff (both orders), and to the libsquashfs reader API directly: every sequence of <= 2 operations "
                                "(get_inode, readdir, resolve_path, data reader read/get_block/get_fragment/stream, xattr read_all, id lookup, meta reader seek+read; arguments derived from the valid "
                                "base image) on fresh reader objects of the variant (engines/hist/reader_hist.c). distinct = distinct (base, variant). "
                                "Oracle: terminates (15 s, re-run alone at 150 s), no ASan report, no fatal signal, no abort; any exit status (timeouts 10 s, re-run alone at 60 s).")
        cr.assumptions += ["coverage-guided mutation (a sampling technique) is replaced by the exhaustive deviation-1/2 and byte-level families",
                           "output size of unpack limited to 64 MiB per file (RLIMIT_FSIZE) so that a huge declared size is an error, not a hang"]
    return cr.finish()


if __name__ == "__main__":
    main_wrapper(main)
