#!/usr/bin/env python3
"""C06 — unpack confinement: all hostile directory listings of <=2 (quick) / structured 3 entries over a name x kind alphabet
(written by the independent image writer) x unpack option sets x pre-existing/absent unpack root are unpacked by the real
rdsquashfs inside a jail; everything outside the unpack root must be bit-for-bit unchanged."""
import os, sys, json, shutil, tempfile, itertools, stat, hashlib
sys.path.insert(0, os.path.dirname(os.path.dirname(os.path.abspath(__file__))))
from vlib.common import *
from vlib import build, mkimg, sqfsck
from vlib.mkimg import Node, D, F, L

SCR = None
T = {}
OPTSETS_Q = [[], ["-C", "-O", "-T", "-X"], ["-C"], ["-O", "-T"]]
OPTSETS_T = [list(c) for r in range(5) for c in itertools.combinations(["-C", "-O", "-T", "-X"], r)]


def snapshot(root):
    out = {}
    rootb = os.fsencode(root)
    for dp, dns, fns in os.walk(rootb, followlinks=False):
        for n in dns + fns:
            full = os.path.join(dp, n)
            st = os.lstat(full)
            rel = os.path.relpath(full, rootb)
            m = st.st_mode
            e = [stat.S_IFMT(m), stat.S_IMODE(m), st.st_uid, st.st_gid, int(st.st_mtime)]
            if stat.S_ISREG(m):
                e += [st.st_size, sha_file(full)]
            elif stat.S_ISLNK(m):
                e += [os.readlink(full)]
            try:
                e.append(sorted((k, os.getxattr(full, k, follow_symlinks=False)) for k in os.listxattr(full, follow_symlinks=False)))
            except OSError:
                e.append(None)
            out[rel] = e
    st = os.lstat(rootb)
    out[b"."] = [stat.S_IMODE(st.st_mode), st.st_uid, st.st_gid]
    return out


def make_jail(j):
    os.makedirs(os.path.join(j, "outside", "sd"))
    for name, data, mode, uid in (("s1", b"sentinel one\n", 0o640, 1234), ("sd/s2", b"sentinel two\n", 0o600, 0), ("pwn", b"do not touch\n", 0o444, 7)):
        p = os.path.join(j, "outside", name)
        open(p, "wb").write(data)
        os.chmod(p, mode)
        os.chown(p, uid, uid)
        os.utime(p, (1111111111, 1111111111))
    os.symlink("s1", os.path.join(j, "outside", "ln"))
    os.chmod(os.path.join(j, "outside", "sd"), 0o750)
    os.utime(os.path.join(j, "outside", "sd"), (1111111111, 1111111111))
    os.utime(os.path.join(j, "outside"), (1111111111, 1111111111))
    open(os.path.join(j, "top-sentinel"), "wb").write(b"top\n")
    os.utime(os.path.join(j, "top-sentinel"), (1111111111, 1111111111))


def name_alphabet(j):
    jb = os.fsencode(j)
    return [b"a", b".", b"..", b"A", b"a/b", b"../outside/s1", jb + b"/outside/s1", b"a\x00b", b"..a", b"...", b"../outside/pwn", b"/", b"y", b"z"]


def kind_alphabet(j):
    jb = os.fsencode(j)
    K = [("file", lambda: F(b"hostile payload\n", mode=0o4777, uid=0, gid=0, mtime=999)),
         ("dir+pwn", lambda: D([(b"aa-new", F(b"escaped!\n", mode=0o666), None), (b"pwn", F(b"pwned!\n", mode=0o666), None), (b"s1", F(b"overwritten\n", mode=0o666), None)], mode=0o777, mtime=999)),
         ("fifo", lambda: Node("fifo", 0o666)), ("chr", lambda: Node("chr", 0o666, rdev=0x103))]
    for tg in (jb + b"/outside", b"../outside", b"..", b".", b"/", jb + b"/outside/s1", b"../outside/sd"):
        K.append(("slink->" + tg.decode("latin1").replace(j, "<J>"), (lambda tg=tg: L(tg, uid=55, gid=66, mtime=999, xattrs=None))))
    # inodes whose on-disk mode field carries file type bits that contradict the inode type (the type must come from the inode type alone)
    K.append(("file+typebits", lambda: F(b"hostile payload\n", mode=0o010666, uid=0, gid=0, mtime=999)))
    K.append(("fifo+typebits", lambda: Node("fifo", 0o020666)))
    K.append(("dir+typebits", lambda: D([(b"aa-new", F(b"escaped!\n", mode=0o100666), None)], mode=0o120777, mtime=999)))
    return K


def build_case_image(j, entries, nested, xattrs, ext=False):
    """entries: list of (name, kind index, type override); ext: every inode in its extended representation, with an xattr"""
    K = kind_alphabet(j)
    ents = []
    for name, ki, tov in entries:
        n = K[ki][1]()
        if (xattrs and n.kind in ("file", "dir")) or ext:
            n.xattrs = {b"user.hostile": b"1"}
            n.ext = True
        ents.append((name, n, tov))
    root = D(ents, mode=0o755)
    if nested:
        root = D([(b"sub", root, None), (b"ok", F(b"benign\n"), None)], mode=0o755)
    else:
        root.entries.append((b"zz-ok", F(b"benign\n"), None))
    img, fields = mkimg.build(root)
    return img


def evaluate(case):
    j = tempfile.mkdtemp(prefix="jail", dir=SCR)
    try:
        make_jail(j)
        names = name_alphabet(j)
        ents = [(names[ni], ki, tov) for (ni, ki, tov) in case["entries"]]
        if case.get("mirror"):
            # legal names only: a chain of directories that spells the ABSOLUTE path of an object outside the unpack root (without the leading '/');
            # a path used before it is made relative lands on the host object
            comps = os.fsencode(j).strip(b"/").split(b"/") + [b"outside"]
            leaf = {"file": F(b"mirror payload\n", mode=0o4777, uid=0, gid=0, mtime=999), "dir": D([(b"n", F(b"x"), None)], mode=0o777, mtime=999)}[case["mirror"]]
            leaf.xattrs = {b"user.hostile": b"1"}
            leaf.ext = True
            node = D([((b"s1" if case["mirror"] == "file" else b"sd"), leaf, None)], mode=0o777, mtime=999, xattrs={b"user.hostile": b"2"}, ext=True)
            for c in reversed(comps):
                node = D([(c, node, None)], mode=0o755)
            img, _f = mkimg.build(node)
        else:
            img = build_case_image(j, ents, case["nested"], "-X" in case["opts"], case.get("ext", False))
        ip = os.path.join(j, "hostile.sqfs")
        open(ip, "wb").write(img)
        os.utime(ip, (1111111111, 1111111111))
        r_path = os.path.join(j, "R")
        if case["preexist"] or case.get("prefill"):
            os.mkdir(r_path)
        if case.get("prefill"):
            # R is not fresh: an earlier unpack (of another crafted image) left an object under the name the image uses
            pb = os.path.join(r_path, "sub") if case["nested"] else r_path
            if case["nested"]:
                os.mkdir(pb)
            pn = os.path.join(pb, "a")
            pf = case["prefill"]
            if pf == "file":
                open(pn, "wb").write(b"earlier\n")
            elif pf == "dir":
                os.mkdir(pn)
            else:
                os.symlink({"slink->outside": os.path.join(j, "outside"), "slink->outside/s1": os.path.join(j, "outside", "s1"), "slink->rel-outside": "../outside" if not case["nested"] else "../../outside",
                            "slink->outside/new": os.path.join(j, "outside", "new")}[pf], pn)
        before = snapshot(j)
        argv = [T["rdsquashfs"], "-u", case["upath"], "-p", "R"] + case["opts"] + ["hostile.sqfs"]
        r = run_tool_hangcheck(argv, cwd=j, timeout=20)
        after = snapshot(j)
        K = kind_alphabet(j)
        label = ("R holds %s left by an earlier unpack, " % case["prefill"] if case.get("prefill") else "") + ("extended inodes, " if case.get("ext") else "") + "listing %s%s, options %s, unpack path %s, R %s" % (
            [(names[ni].decode("latin1").replace(j, "<J>"), K[ki][0], tov) for ni, ki, tov in case["entries"]], " (nested in /sub)" if case["nested"] else "",
            case["opts"], case["upath"], "pre-existing" if case["preexist"] else "absent")

        def viol(fp, what):
            return dict(status="violation", fp=fp, what=label + "\n" + what,
                        files={"hostile.sqfs": img, "case.json": json.dumps(case), "stderr.txt": r.err[-3000:]})
        if r.timeout:
            return viol("C06|hang", "rdsquashfs -u did not terminate")
        if r.crashed:
            return viol("C06|crash|" + r.crash_fingerprint(), r.err.decode("latin1")[-2000:])
        # everything outside R must be unchanged
        strip = lambda s: {k: v for k, v in s.items() if k != b"R" and not k.startswith(b"R/")}
        b, a = strip(before), strip(after)
        if a != b:
            diffs = []
            for k in sorted(set(a) | set(b)):
                if a.get(k) != b.get(k):
                    diffs.append("%r: before %r after %r" % (k, b.get(k), a.get(k)))
            kinds = sorted(set(K[ki][0].split("->")[0] for _, ki, _ in case["entries"]))
            what = "created" if any(k not in b for k in a) else ("removed" if any(k not in a for k in b) else "modified")
            return viol("C06|escape|%s|%s" % (what, "+".join(kinds)), "objects outside the unpack root changed (rc=%d):\n  %s\nstderr: %s" % (
                r.rc, "\n  ".join(diffs[:6]), r.err.decode("latin1")[-600:]))
        # skipped entries must be reported; with exit 0 the sane unique entries exist with the right type
        res = dict(status="ok", rc=r.rc, nontrivial=(b"R" in after))
        if r.rc == 0 and not case.get("prefill"):
            cnt = {}
            eff = lambda nm_: nm_.split(b"\x00")[0]     # the tool reads names as C strings
            for ni, ki, tov in case["entries"]:
                cnt[eff(names[ni])] = cnt.get(eff(names[ni]), 0) + 1
            base = os.path.join(os.fsencode(j), b"R", b"sub") if case["nested"] else os.path.join(os.fsencode(j), b"R")
            for ni, ki, tov in case["entries"]:
                nm = eff(names[ni])
                sane = nm not in (b".", b"..", b"") and b"/" not in nm
                if not sane:
                    if nm not in r.err and b"skipping" not in r.err and b"illegal" not in r.err.lower():
                        return viol("C06|skip-not-reported", "exit 0, entry %r was skipped without any diagnostic" % nm)
                    continue
                if cnt[nm] > 1 or tov is not None:
                    continue
                kind0 = K[ki][0].split("->")[0]
                filtered = ("-L" in case["opts"] and kind0 == "slink") or ("-D" in case["opts"] and kind0 in ("chr", "blk")) or \
                           ("-F" in case["opts"] and kind0 == "fifo") or ("-S" in case["opts"] and kind0 == "sock") or \
                           ("-E" in case["opts"] and kind0.startswith("dir"))
                if filtered:
                    continue          # the user asked not to unpack entries of this kind
                try:
                    st = os.lstat(os.path.join(base, nm))
                except OSError:
                    return viol("C06|entry-missing", "exit 0 but the sane, unique entry %r was not unpacked" % nm)
                kind = K[ki][0].split("->")[0].split("+")[0]
                want = {"file": stat.S_IFREG, "dir": stat.S_IFDIR, "slink": stat.S_IFLNK, "fifo": stat.S_IFIFO, "chr": stat.S_IFCHR}[kind]
                if stat.S_IFMT(st.st_mode) != want:
                    return viol("C06|entry-type", "entry %r unpacked with type %o, image says %s" % (nm, stat.S_IFMT(st.st_mode), kind))
        return res
    finally:
        shutil.rmtree(j, ignore_errors=True)


def gen_cases(tier):
    quick = tier == "quick"
    nn = 14                     # names
    nk = 4 + 7                  # kinds
    optsets = OPTSETS_Q if quick else OPTSETS_T
    cases = []

    def add(entries, nested=False, opts=None, upath="/", preexist=False, ext=False):
        for o in (opts if opts is not None else optsets):
            cases.append(dict(entries=entries, nested=nested, opts=o, upath=upath, preexist=preexist, ext=ext))
    # all 1-entry listings, basic and extended inode representation
    for ni in range(nn):
        for ki in range(nk):
            add([(ni, ki, None)])
            add([(ni, ki, None)], ext=True)
            add([(ni, ki, None)], nested=True, opts=optsets[:2])
            add([(ni, ki, None)], preexist=True, opts=optsets[:2])
    # all ordered 2-entry listings over a reduced alphabet (same name twice included)
    names2 = [0, 1, 2, 3, 4, 6, 7] if quick else list(range(nn))
    kinds2 = [0, 1, 4, 5, 9, 10] if quick else list(range(nk))
    for (n1, k1), (n2, k2) in itertools.product(itertools.product(names2, kinds2), repeat=2):
        if quick and n1 != n2 and not (k1 >= 4 or k2 >= 4):
            continue
        add([(n1, k1, None), (n2, k2, None)], opts=optsets[:2] if quick else optsets[:4])
    # mismatching entry type vs inode type
    for ki in range(nk):
        for tov in (1, 2, 3):
            add([(0, ki, tov)], opts=optsets[:2])
    # structured 3-entry listings: symlink, directory of the same name with children, file through it
    for k_sl in range(4, nk):
        for order in itertools.permutations([(0, k_sl, None), (0, 1, None), (4, 0, None)]):
            add(list(order), opts=optsets[:2] if quick else optsets)
            add(list(order), opts=optsets[:2], ext=True)
            add(list(order), nested=True, opts=optsets[:1])
            add(list(order), preexist=True, opts=optsets[1:2])
        for order in itertools.permutations([(0, k_sl, None), (0, 0, None), (3, 1, None)]):
            add(list(order), opts=optsets[:2])
    # repeated name with a case variant of it in between (an order-insensitive or case-insensitive duplicate check would be fooled): every order
    for k_sl in range(4, nk):
        for n_a, n_b in ((0, 3), (3, 0)):
            for order in itertools.permutations([(n_a, k_sl, None), (n_b, 0, None), (n_a, 1, None)]):
                add(list(order), opts=optsets[:2])
            for order in itertools.permutations([(n_a, k_sl, None), (n_b, 1, None), (n_a, 1, None)]):
                add(list(order), opts=optsets[:1])
    # four entries, stored in every order: a repeated name (symlink + directory) and two other names that sort before / after it
    # (a sort that leaves part of the list unsorted, or a duplicate check that only looks at some neighbours, is fooled by some of the 24 orders)
    for k_sl in ((4, 5, 9) if quick else range(4, nk)):
        for others in (((12, 0), (13, 0)), ((3, 0), (13, 0)), ((9, 0), (3, 0))):
            for order in itertools.permutations([(0, k_sl, None), (0, 1, None), (others[0][0], others[0][1], None), (others[1][0], others[1][1], None)]):
                add(list(order), opts=optsets[:1])
                add(list(order), nested=True, opts=optsets[:1])      # nested: the directory holds exactly these four entries
    # inode-type filters of the unpacker (--no-slink, --no-dev, --no-sock, --no-fifo, --no-empty-dir, --no-sparse): they look at the directory
    # entry's type field, what is created is decided by the inode - with honest and with lying entry types
    FILT = [["-L"], ["-D", "-S", "-F"], ["-E"], ["-Z"], ["-L", "-C", "-O"]]
    for ki in range(nk):
        for tov in (None, 1, 2, 3):
            add([(0, ki, tov)], opts=FILT)
    for k_sl in range(4, nk):
        for tov in (None, 1, 2):
            for order in itertools.permutations([(0, k_sl, tov), (0, 1, None), (4, 0, None)]):
                add(list(order), opts=FILT[:1] + FILT[4:])
                add(list(order), nested=True, opts=FILT[:1])
    # the image spells the absolute path of an outside object with legal names
    for kind_ in ("file", "dir"):
        for o in (["-X"], ["-C", "-O", "-T", "-X"], ["-C"], ["-O", "-T"], []):
            cases.append(dict(entries=[], nested=False, opts=o, upath="/", preexist=False, ext=False, mirror=kind_))
    # R is not fresh: an object of every kind (symlinks leading outside included) already sits under the name the image uses - every kind of image entry x options
    for pf in ("slink->outside", "slink->outside/s1", "slink->rel-outside", "slink->outside/new", "file", "dir"):
        for ki in range(nk if not quick else 6):
            for o in ([], ["-C", "-O", "-T", "-X"], ["-X"], ["-C"]):
                cases.append(dict(entries=[(0, ki, None)], nested=False, opts=o, upath="/", preexist=False, ext=False, prefill=pf))
            cases.append(dict(entries=[(0, ki, None)], nested=True, opts=["-C", "-O", "-T", "-X"], upath="/", preexist=False, ext=False, prefill=pf))
            cases.append(dict(entries=[(0, ki, None)], nested=True, opts=[], upath="/sub", preexist=False, ext=False, prefill=pf))
    # not fresh root, the colliding entry inside a sub-directory with siblings before and after it (an error of one child must not be forgotten)
    for pf in ("slink->outside", "slink->outside/s1", "slink->outside/new", "file"):
        for ki in (0, 1):
            for o in ([], ["-C", "-O", "-T", "-X"]):
                for order in ([(3, 0, None), (0, ki, None), (12, 0, None)], [(0, ki, None), (12, 0, None), (13, 1, None)]):
                    cases.append(dict(entries=order, nested=True, opts=o, upath="/", preexist=False, ext=False, prefill=pf))
    # type bits in the mode field: alone, nested, and on a root that is not fresh
    for ki in (11, 12, 13):
        add([(0, ki, None)])
        add([(0, ki, None)], nested=True, opts=optsets[:2])
        for pf in ("slink->outside", "slink->outside/s1", "slink->rel-outside", "slink->outside/new", "file", "dir"):
            for o in ([], ["-C"], ["-C", "-O", "-T", "-X"]):
                cases.append(dict(entries=[(0, ki, None)], nested=False, opts=o, upath="/", preexist=False, ext=False, prefill=pf))
    # unpack of a sub path
    for ni in (0, 2, 6):
        for ki in (0, 1, 4, 5):
            add([(ni, ki, None)], nested=True, upath="/sub", opts=optsets[:2])
    return cases


def main():
    global SCR
    cr = CheckRun("C06", "exploration", default_budget=(420, 3000))
    with build.Scratch("C06") as sd:
        SCR = sd
        T.update(build.build_tools(build.variant("asan"), os.path.join(sd, "bin"), tools=["rdsquashfs"]))
        if cr.replay:
            case = json.load(open(os.path.join(cr.replay, "case.json")))
            print(evaluate(case))
            return 1
        # writer self-check: a benign listing must unpack completely
        j = tempfile.mkdtemp(dir=sd)
        img, _ = mkimg.build(D([(b"a", F(b"x"), None), (b"d", D([(b"c", F(b"y"), None)]), None), (b"l", L(b"a"), None)]))
        open(os.path.join(j, "ok.sqfs"), "wb").write(img)
        r = run_tool([T["rdsquashfs"], "-q", "-u", "/", "-p", "R", "ok.sqfs"], cwd=j)
        if r.rc != 0 or not os.path.exists(os.path.join(j, "R", "d", "c")):
            raise RuntimeError("benign MKIMG image does not unpack: %s" % r.err[-300:])
        cases = gen_cases(cr.tier)
        cr.coverage["planned_cases"] = len(cases)
        n_eval = n_nontriv = 0
        rcs = {}
        chunk = 3000
        for off in range(0, len(cases), chunk):
            if cr.expired():
                cr.cap("deadline after %d of %d" % (off, len(cases)))
                break
            for c, r in zip(cases[off:off + chunk], pmap(evaluate, cases[off:off + chunk])):
                n_eval += 1
                if r["status"] == "violation":
                    cr.violation(r["fp"], r["what"], files=r["files"], replay_sh="python3 /verif/checks/C06.py --replay \"$PWD\"")
                    continue
                rcs[r["rc"]] = rcs.get(r["rc"], 0) + 1
                if r["nontrivial"]:
                    n_nontriv += 1
        cr.sample({"entries (name idx, kind idx, type override)": cases[len(cases) // 3]["entries"], "opts": cases[len(cases) // 3]["opts"]})
        cr.sample({"names": ["a", ".", "..", "A", "a/b", "../outside/s1", "<J>/outside/s1", "a\\0b", "..a", "...", "../outside/pwn", "/"],
                   "kinds": ["file(4777)", "dir with children pwn,s1", "fifo", "chr", "symlink -> <J>/outside | ../outside | .. | . | / | <J>/outside/s1 | ../outside/sd"]})
        cr.coverage.update(evaluations=n_eval, distinct_nontrivial=n_nontriv, exit_status_histogram={str(k): v for k, v in rcs.items()},
                           rule="Hostile directory listings are written verbatim by the independent image writer: all 1-entry listings over 12 names x 11 kinds, all ordered 2-entry listings "
                                "(duplicates included) over a reduced alphabet, entry-type/inode-type mismatches, structured 3-entry listings in all 6 orders (symlink + directory of the same "
                                "name with children + file through it), each also nested one level and with a pre-existing unpack root, x unpack option subsets of {--chmod,--chown,--set-times,"
                                "--set-xattr}, x unpack path {/, /sub}. The jail holds sentinel files, a directory and a symlink outside the unpack root with distinctive owner/mode/mtime; absolute "
                                "names and targets point into the jail. distinct_nontrivial = cases in which the tool actually created the unpack root. Oracle: recursive snapshot of everything "
                                "outside R identical before and after; no crash/hang; exit 0 => skipped names reported and sane unique entries present with the image's type.")
        cr.assumptions += ["runs as root so that chown/mknod/xattr really take effect", "names are NUL-terminated when the tool reads them (a\\0b behaves as 'a')"]
    return cr.finish()


if __name__ == "__main__":
    main_wrapper(main)
