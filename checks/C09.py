#!/usr/bin/env python3
"""C09 — worker pool: exhaustive exploration of all interleavings (mutex/condvar granularity) of the real
lib/util/src/threadpool.c under a controlled scheduler; iterated preemption bounds, then complete."""
import os, sys, json, time
from concurrent.futures import ThreadPoolExecutor
sys.path.insert(0, os.path.dirname(os.path.dirname(os.path.abspath(__file__))))
from vlib.common import *
from vlib import build, sched

HARNESS = os.path.join(VERIF, "engines/sched/pool_harness.c")
REPO_SRCS = ["lib/util/src/alloc.c"]
SHAPES = {7: "create-with-failing-pthread_create", 0: "submit-all,dequeue-all", 1: "backlog-1", 2: "backlog-2", 3: "status-polled", 4: "submit-all,destroy",
          5: "submit-all,dequeue-1,destroy", 6: "two rounds (recycling)"}


def configs(tier):
    """(workers, items, failpos, shape, spur, mode) mode: 'complete' or preemption bound int"""
    out = []
    if tier == "quick":
        for w in (1, 2):
            for n in (1, 2, 3):
                for f in [-1] + list(range(n)):
                    for sh in range(7):
                        out.append((w, n, f, sh, 0, "complete"))
        # spurious wake-ups (1) on the 2x2/2x3 core
        for n in (2, 3):
            for f in (-1, 0, n - 1):
                for sh in (0, 1, 4):
                    out.append((2, n, f, sh, 1, "complete"))
        out.append((3, 3, -1, 0, 0, "complete"))
        out.append((3, 3, 1, 0, 0, "complete"))
        out.append((3, 4, -1, 1, 0, 2))
        # pool creation when pthread_create fails for the 2nd / 3rd worker (the workers already started must be told and joined)
        out.append((2, 1, 1, 7, 0, "complete"))
        out.append((3, 1, 1, 7, 0, "complete"))
        out.append((3, 1, 2, 7, 0, "complete"))
        # four items on two workers: items k and k+2 can be done while k+1 is still in a worker when a further submit() runs (gap in the done list)
        out.append((2, 4, -1, 0, 0, 2))
        out.append((2, 4, -1, 2, 0, 2))
        out.append((2, 4, 1, 0, 0, 1))
        # the API treats ANY non-zero callback result as failure: the default failing status is positive (42); negative status on the 2-worker core
        for n in (2, 3):
            for f in range(n):
                for sh in (0, 1, 4, 6):
                    out.append((2, n, f, sh, 0, "complete", -5))
    else:
        # pool creation with a failing pthread_create: every worker count x every failing creation (but the first: nothing to join then)
        for w in (2, 3, 4):
            for f in range(1, w):
                out.append((w, 1, f, 7, 0, "complete"))
        for w in (1, 2, 3):
            for n in (1, 2, 3):
                for f in [-1] + list(range(n)):
                    for sh in range(7):
                        out.append((w, n, f, sh, 0, "complete"))
        for n in (4, 5):
            for f in [-1] + list(range(n)):
                for sh in (0, 1, 2, 6):
                    out.append((2, n, f, sh, 0, "complete"))
        for n in (2, 3):
            for f in [-1] + list(range(n)):
                for sh in (0, 1, 4, 6):
                    out.append((2, n, f, sh, 1, "complete"))
                    out.append((2, n, f, sh, 2, "complete"))
        for n in (4, 5):
            for f in (-1, 0, 2, n - 1):
                for sh in (0, 2):
                    out.append((3, n, f, sh, 0, 3))
        out.append((3, 3, -1, 0, 1, 3))
        for w in (2, 3):
            for n in (2, 3, 4):
                for f in range(n):
                    for sh in range(7):
                        out.append((w, n, f, sh, 0, "complete" if w == 2 else 3, -5))
    return out


def weight(c):
    w, n, f, sh, spur, mode = c[:6]
    return (w + 1) ** n * (1 + 3 * spur)


def main():
    cr = CheckRun("C09", "model_checking", default_budget=(900, 7200))
    with build.Scratch("C09") as sd:
        exe = sched.build_explorer(sd, "pool_explore", HARNESS, REPO_SRCS)
        if cr.replay:
            case = json.load(open(os.path.join(cr.replay, "case.json")))
            r = sched.replay(exe, case["hargs"], os.path.join(cr.replay, "schedule.txt"))
            sys.stderr.write(r.err.decode("latin1")[-6000:])
            print(r.out.decode())
            return 1 if r.rc != 0 else 0

        tot = dict(executions=0, states=0, transitions=0, complete_executions=0, pruned_executions=0)
        outcomes_total = 0
        cfg_done = []
        max_bound_completed = {}

        def record_violation(c, bound, j, r):
            w, n, f, sh, spur, mode = c[:6]
            hargs = [w, n, f, sh] + list(c[6:7])
            if j is None:
                cr.harness_error = "explorer produced no result: rc=%d %s" % (r.rc, r.err.decode("latin1")[-2000:])
                return
            v = j["violation"]
            kind = {3: "deadlock", 4: "oracle", 5: "livelock"}.get(v["outcome"], "crash")
            if v["outcome"] == 6:
                cr.harness_error = "replay divergence / harness error: " + v["msg"]
                return
            msg = v["msg"]
            # fingerprint: kind + normalised message (numbers of points removed)
            import re
            core = re.sub(r"at point \d+", "", msg).split(":")[0] if kind == "deadlock" else re.sub(r"\d+", "N", msg)[:80]
            if kind == "deadlock":
                core = "T0 blocked in " + ("dequeue" if "pc2" in msg or "pc3" in msg else "api") + (" after worker failure" if f >= 0 else "")
                if sh == 7:
                    core = "T0 blocked in thread_pool_create after a failing pthread_create"
            fp = "C09|%s|%s" % (kind, core)
            files = {"case.json": json.dumps({"hargs": hargs, "bound": bound, "spur": spur, "violation": v}, indent=1),
                     "schedule.txt": " ".join(str(x) for x in v["schedule_choices"]) + "\n"}
            cr.violation(fp, "config workers=%d items=%d failing_item=%d shape=%s spurious=%d bound=%s\n%s\nschedule (thread ids): %s\nreplayed_same=%s" % (
                w, n, f, SHAPES[sh], spur, bound, msg, v["schedule_threads"], v["replayed_same"]),
                files=files, replay_sh="python3 /verif/checks/C09.py --replay \"$PWD\"")

        # 0. cross-validation of state-hash pruning: bounded exploration with and without hashing
        #    must observe the same outcome set (a too-coarse hash would lose outcomes)
        xv = []
        for hargs, b in (([2, 2, -1, 0], 1), ([2, 2, 0, 0], 2), ([2, 3, 1, 1], 1)):
            j1, r1 = sched.explore(exe, hargs, bound=b, nohash=True)
            j2, r2 = sched.explore(exe, hargs, bound=b)
            if j1 is None or j2 is None:
                raise RuntimeError("explorer failed in cross-validation: %s %s" % (r1.err[-500:], r2.err[-500:]))
            s1 = sorted(o["result"] for o in j1["outcomes"])
            s2 = sorted(o["result"] for o in j2["outcomes"])
            if (j1["violation"] is None) != (j2["violation"] is None) or (j1["violation"] is None and s1 != s2):
                raise RuntimeError("state-hash pruning lost outcomes for %s bound %d: %s vs %s" % (hargs, b, s1, s2))
            xv.append({"hargs": hargs, "bound": b, "executions_nohash": j1["executions"], "executions_hash": j2["executions"],
                       "outcomes": len(s1)})
        cr.coverage["hash_pruning_cross_validation"] = xv

        cfgs = sorted(configs(cr.tier), key=weight)
        small = [c for c in cfgs if weight(c) <= 40]
        big = [c for c in cfgs if weight(c) > 40]

        def run_cfg(c, procs):
            """iterate preemption bounds 0,1,2 then the target mode; stop at first violation"""
            w, n, f, sh, spur, mode = c[:6]
            hargs = [w, n, f, sh] + list(c[6:7])
            res = []
            bounds = [0, 1, 2] + ([-1] if mode == "complete" else ([mode] if mode > 2 else []))
            if isinstance(mode, int) and mode <= 2:
                bounds = list(range(mode + 1))
            for b in bounds:
                left = cr.time_left()
                if left < 5:
                    res.append((b, "skipped", None, None))
                    break
                j, r = sched.explore(exe, hargs, bound=b, spur=spur, procs=procs, deadline=max(5, left - 3), unlock_points=(not cr.quick) or w * n <= 4)
                res.append((b, "ok", j, r))
                if j is None or j["violation"] is not None or j["capped"]:
                    break
            return c, res

        results = []
        with ThreadPoolExecutor(8) as ex:
            results += list(ex.map(lambda c: run_cfg(c, 2), small))
        for c in big:
            results.append(run_cfg(c, 16))

        distinct_out = 0
        for c, res in results:
            w, n, f, sh, spur, mode = c[:6]
            done_bound = None
            for b, st, j, r in res:
                if st == "skipped":
                    cr.cap("deadline before bound %s of config %s" % (b, c))
                    break
                if j is None:
                    record_violation(c, b, j, r)
                    break
                for k in tot:
                    tot[k] += j[k]
                if j["violation"] is not None:
                    record_violation(c, b, j, r)
                    break
                if j["capped"]:
                    cr.cap("deadline inside bound %s of config %s" % (b, c))
                    break
                done_bound = "complete" if b == -1 else b
                if b == -1 or b == res[-1][0]:
                    distinct_out += j["distinct_outcomes"]
                    if len(cr.coverage["samples"]) < 8 and (f >= 0 or w > 1) and b == -1:
                        cr.sample({"workers": w, "items": n, "failing_item": f, "driver": SHAPES[sh], "spurious_budget": spur,
                                   "bound": "complete", "executions": j["executions"], "states": j["states"],
                                   "transitions": j["transitions"], "max_depth": j["max_depth"],
                                   "distinct_outcomes": j["distinct_outcomes"],
                                   "example_outcomes": [o["result"] for o in j["outcomes"][:3]]}, limit=8)
            cfg_done.append({"cfg": "w%d n%d f%d shape%d spur%d" % (w, n, f, sh, spur), "target": mode, "completed": done_bound})

        if cr.harness_error:
            print("HARNESS-ERROR: " + cr.harness_error, file=sys.stderr)
            return 2

        # block processor on top of the same controlled pool, compressor failing on a chosen block: every call must return
        bp_cfgs = []
        if not cr.groups and cr.time_left() <= 40:
            cr.cap("deadline before the block-processor failure scenarios")
        if not cr.groups and cr.time_left() > 40:
            bexe = sched.build_bp_explorer(sd)
            scen = ["!1", "a1,!1,b1", "a2+q3,!2+q3,+q3", "+r20,!1,+s20,+t20"] if cr.quick else \
                   ["!1", "!2", "a1,!1,b1", "a2+q3,!2+q3,+q3", "+r20,!1,+s20,+t20", "a1,b1,!1", "!1,a1,b1,+q3", "a2,a2,!1+q3", "F:!1+q3,a1"]
            # ... and without failure at the smallest queue backlogs (the front end itself holds up to two blocks outside the pool): every call must return
            small_backlog = [(bl, sc) for bl in (1, 2) for sc in (["+q5,a1+q3", "a1+q3,+q5,b2+q3"] if cr.quick else ["+q5,a1+q3", "a1+q3,+q5,b2+q3", "+q5,+r5,a2+q3,b1", "F:a1+q3,+q5,a2+q3"])]
            for wk in ((2,) if cr.quick else (1, 2, 3)):
                for bl, sc in [(3, sc_) for sc_ in scen] + small_backlog:
                    left = cr.time_left()
                    if left < 20:
                        cr.cap("deadline before block-processor failure scenario %s" % sc)
                        break
                    j, r = sched.explore(bexe, [wk, bl, sc], bound=-1 if wk < 3 else 2, deadline=max(10, left - 15), unlock_points=True)
                    if j is None:
                        raise RuntimeError("bp explorer failed: %s" % r.err[-400:])
                    for k in tot:
                        tot[k] += j[k]
                    bp_cfgs.append({"workers": wk, "backlog": bl, "scenario": sc, "executions": j["executions"], "states": j["states"],
                                    "outcomes": [o["result"] for o in j["outcomes"]], "capped": j["capped"]})
                    if j["capped"]:
                        cr.cap("block-processor failure scenario %s capped" % sc)
                    if j["violation"] is not None:
                        v = j["violation"]
                        kind = {3: "deadlock", 4: "oracle", 5: "livelock"}.get(v["outcome"], "crash")
                        cr.violation("C09|block-processor|%s|%s" % (kind, "compressor failure" if "!" in sc else "backlog %d" % bl),
                                     "block processor on the controlled pool, %d workers, backlog %d, scenario %r (toy compressor fails on '!' blocks)\n%s\nschedule (thread ids): %s" % (
                                         wk, bl, sc, v["msg"], v["schedule_threads"]),
                                     files={"case.json": json.dumps({"bp": True, "hargs": [wk, bl, sc], "violation": v}, indent=1),
                                            "schedule.txt": " ".join(str(x) for x in v["schedule_choices"]) + "\n"})
        cr.coverage["block_processor_failure_scenarios"] = bp_cfgs

        # free-running ThreadSanitizer pass over the same harness body (complement: unsynchronised accesses)
        tsan_runs = 0
        try:
            if cr.groups:
                raise build.BuildError("skipped: the controlled exploration already found a violation")
            tex = sched.build_free_running(sd, "pool_tsan", HARNESS, REPO_SRCS)
            iters = 40 if cr.quick else 400
            jobs = []
            for it in range(iters):
                for hargs in ([3, 5, -1, 0], [3, 5, 2, 1], [2, 4, -1, 6], [3, 4, 0, 3], [3, 5, -1, 4]):
                    jobs.append([tex] + [str(x) for x in hargs])

            hung = []

            def trun(a):
                if hung:
                    return a, None
                r = run_tool(a, timeout=30)
                if r.timeout:
                    hung.append(a)
                return a, r
            with ThreadPoolExecutor(16) as ex:
                for a, r in ex.map(trun, jobs):
                    if r is None:
                        continue
                    tsan_runs += 1
                    if r.timeout:
                        r2 = run_tool(a, timeout=300)
                        if r2.timeout:
                            cr.violation("C09|hang|free-running", "free-running harness did not terminate within 300 s: %s" % a,
                                         files={"case.json": json.dumps({"argv": a[1:]})})
                        continue
                    if r.crashed or r.rc != 0:
                        cr.violation("C09|" + r.crash_fingerprint(), "free-running TSan pass: args %s rc=%d\n%s" % (a[1:], r.rc, r.err.decode("latin1")[-3000:]),
                                     files={"case.json": json.dumps({"argv": a[1:]}), "stderr.txt": r.err})
        except build.BuildError as e:
            cr.note("TSan pass not built: %s" % str(e)[:200])

        ncomplete = sum(1 for c in cfg_done if c["completed"] == "complete")
        cr.coverage.update(
            states=tot["states"], transitions=tot["transitions"], traces_validated_against_impl=tot["executions"],
            evaluations=tot["executions"], distinct_nontrivial=distinct_out,
            complete_executions=tot["complete_executions"], pruned_executions=tot["pruned_executions"],
            configurations=len(cfg_done), configurations_explored_completely=ncomplete,
            per_configuration=cfg_done if len(cfg_done) <= 400 else cfg_done[:400],
            tsan_free_running_runs=tsan_runs,
            rule="Each configuration (workers, items, failing item, driver shape, spurious-wake-up budget) is explored with preemption "
                 "bounds 0,1,2 and then without bound (complete) unless a bound is given as target; every execution is the real "
                 "threadpool.c under the controlled scheduler (one forked process per execution), so every trace is an implementation "
                 "trace. states = distinct hashed (scheduler + pool + oracle) states summed over runs; distinct_nontrivial = number of "
                 "distinct observable outcomes (dequeue order, submit/get_status results, which worker processed which item) summed "
                 "over configurations at their largest completed bound. Oracles in every state/execution: exactly-once processing, "
                 "FIFO hand-back, context exclusivity, failure status surfaces and later submit refused, no deadlock/livelock, ASan clean.")
        cr.assumptions += ["interleavings at synchronisation-operation granularity (mutex lock, cond wait/wake, join, exit, one yield inside the callback); "
                           "unsynchronised accesses are covered by the free-running TSan pass only",
                           "state-hash pruning is sound if the hash covers all future-relevant state; cross-validated against un-hashed bounded exploration"]
    return cr.finish()


if __name__ == "__main__":
    main_wrapper(main)
