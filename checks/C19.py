#!/usr/bin/env python3
"""C19 — copies of library objects: for every copyable object kind all pre-copy histories (<=P) x all interleavings of <=Q further
operations over {original, copy} x both release orders are executed against the real library; each answer must equal the answer
of a fresh object replaying only that object's own history; ASan + LeakSanitizer clean; shared reference counts restored."""
import os, sys, json, importlib.util
sys.path.insert(0, os.path.dirname(os.path.dirname(os.path.abspath(__file__))))
from vlib.common import *
from vlib import build, packcheck, mkimg, sqfsck
from vlib.mkimg import D, F

KINDS = ["gzip-compress", "gzip-uncompress", "xz-compress", "xz-uncompress", "lz4-compress", "lz4-uncompress", "zstd-compress", "zstd-uncompress",
         "lzma-compress", "lzma-uncompress",
         # the same compressors with every option at a non-default value (level, gzip window, xz/lzma dictionary + lc/lp/pb + BCJ filter, lz4 HC)
         "gzip-opt-compress", "gzip-opt-uncompress", "xz-opt-compress", "xz-opt-uncompress", "lz4-opt-compress", "lz4-opt-uncompress", "zstd-opt-compress", "zstd-opt-uncompress",
         "lzma-opt-compress", "lzma-opt-uncompress", "frag-table", "id-table", "meta-reader", "dir-reader", "dir-reader-dot", "data-reader", "xattr-reader", "file", "xattr-writer"]


def load_c10():
    spec = importlib.util.spec_from_file_location("c10", os.path.join(VERIF, "checks", "C10.py"))
    m = importlib.util.module_from_spec(spec)
    spec.loader.exec_module(m)
    return m


def run_kind(a):
    exe, img, opsf, kind, P, Q = a[:6]
    env = {"ASAN_OPTIONS": ASAN_ENV.replace("detect_leaks=0", "detect_leaks=1"), "LSAN_OPTIONS": "exitcode=97"}
    r = run_tool([exe, img, opsf, kind, str(P), str(Q)], timeout=2400, env=env)
    try:
        j = json.loads(r.out.decode().strip().splitlines()[-1])
    except Exception:
        j = None
    return kind, r, j


def main():
    cr = CheckRun("C19", "model_checking", default_budget=(300, 2400))
    with build.Scratch("C19") as sd:
        c10 = load_c10()
        v = build.variant("asan")
        libs, _ = build.lib_objects(v, os.path.join(sd, "libs"))
        exe = os.path.join(sd, "copy_hist")
        cf = v.cflags + build.base_cppflags(v) + ["-I" + build.REPO, "-I" + os.path.join(VERIF, "engines", "hist"), "-I" + os.path.join(build.REPO, "lib/sqfs/src/xattr")]
        build._cc(["clang"] + cf + [os.path.join(VERIF, "engines/hist/copy_hist.c"), "-o", exe] + v.ldflags + ["-Wl,--wrap=malloc,--wrap=calloc,--wrap=realloc"] + [libs["libsquashfs_la"], libs["libutil_a"], libs["libcompat_a"]] +
                  ["-lz", "-llzma", "-llz4", "-lzstd", "-lpthread"])
        packcheck.TOOLS.update(build.build_tools(v, os.path.join(sd, "bin"), tools=["gensquashfs"]))
        wd = os.path.join(sd, "img")
        os.makedirs(wd)
        r, img, argv = packcheck.pack(c10.spec_v1(), dict(comp="gzip", bs=4096, e=1), wd)
        if r.rc != 0:
            raise RuntimeError("cannot build image")
        ops, mops, _ = c10.derive_ops(open(img, "rb").read())
        opsf = os.path.join(sd, "ops.txt")
        open(opsf, "w").write("\n".join(ops + mops[:3]) + "\n")
        big = os.path.join(sd, "big.sqfs")
        bdata = c10.big_inode_table_image()
        open(big, "wb").write(bdata)
        bops, bmops, _ = c10.derive_ops(bdata)
        bopsf = os.path.join(sd, "ops_big.txt")
        open(bopsf, "w").write("\n".join(bops + bmops[:3]) + "\n")
        IMGS = {"v1": (img, opsf), "big-inode-table": (big, bopsf)}
        if cr.replay:
            c = json.load(open(os.path.join(cr.replay, "case.json")))
            ii, oo = IMGS[c.get("image", "v1")]
            k, r, j = run_kind((exe, ii, oo, c["kind"], c["P"], c["Q"]))
            print(r.out.decode(), r.err.decode("latin1")[-3000:])
            return 1
        P, Q = (1, 2) if cr.quick else (2, 3)
        tot = dict(histories=0, ops_executed=0)
        per = []
        jobs = [(exe, img, opsf, k, P, Q, "v1") for k in KINDS] + [(exe, big, bopsf, k, P, Q, "big-inode-table") for k in ("meta-reader", "dir-reader", "dir-reader-dot")]
        # the harness takes at most two operations per keyword and four in total, in file order: further operation alphabets for the readers whose
        # caches matter (fragment block cached together with a data block of another size; tail ends of two files; streams)
        def pick(prefixes):
            out = []
            for pre in prefixes:
                c = [o for o in ops if o.startswith(pre)]
                if c:
                    out.append(c[0] if not pre.endswith("$last") else c[-1])
            return out
        reads = [o for o in ops if o.startswith("read ")]
        frags = [o for o in ops if o.startswith("frag ")]
        streams = [o for o in ops if o.startswith("stream ")]
        blocks = [o for o in ops if o.startswith("block ")]
        alts = {"ops-tails": [reads[2], reads[-1], frags[0], blocks[0]],             # tail end through read (fragment cache), second file's tail, get_fragment, a data block
                "ops-streams": [streams[0], streams[-1], reads[2], frags[-1]],
                "ops-mixed": [reads[0], frags[-1], blocks[0], streams[-1]]}
        for aname, aops in alts.items():
            f = os.path.join(sd, "ops_%s.txt" % aname.replace("@", "_"))
            open(f, "w").write("\n".join(aops) + "\n")
            IMGS[aname] = (img, f)
            jobs.append((exe, img, f, "data-reader", P, Q, aname))
        paths = [o for o in ops if o.startswith("path ")]
        rdd = [o for o in ops if o.startswith("readdir ")]
        ino = [o for o in ops if o.startswith("inode ")]
        f = os.path.join(sd, "ops_paths.txt")
        open(f, "w").write("\n".join([rdd[-1], paths[0], paths[-1], ino[3]]) + "\n")      # listing, successful and failing path resolution, failing inode fetch
        IMGS["ops-paths"] = (img, f)
        jobs.append((exe, img, f, "dir-reader", P, Q, "ops-paths"))
        jobs.append((exe, img, f, "dir-reader-dot", P, Q, "ops-paths"))
        # an image with more than 512 xattr sets: the descriptor table of the xattr reader spans two metadata blocks
        from vlib.treegen import E as E_
        wdx = os.path.join(sd, "imgx")
        os.makedirs(wdx)
        specx = [E_(b"x%04d" % i, "fifo", 0o600, xattrs={b"user.n": b"%d" % i, b"user.shared": b"S" * 40}) for i in range(600)]
        rx, imgx, _a = packcheck.pack(specx, dict(comp="gzip", bs=4096), wdx)
        if rx is None or rx.rc != 0:
            raise RuntimeError("cannot build the many-xattr image")
        f = os.path.join(sd, "ops_manyx.txt")
        open(f, "w").write("xattr 0\nxattr 512\nxwalk 599 511\nxwalk 511 4294967295\n")
        IMGS["many-xattr-sets"] = (imgx, f)
        jobs.append((exe, imgx, f, "xattr-reader", P, Q, "many-xattr-sets"))
        xw = [o for o in ops if o.startswith("xwalk ")] + [o for o in ops if o.startswith("xattr ")]
        f = os.path.join(sd, "ops_xwalk.txt")
        open(f, "w").write("\n".join([xw[1], xw[2]] + [o for o in ops if o.startswith("xattr ")][:2]) + "\n")
        IMGS["ops-xwalk"] = (img, f)
        jobs.append((exe, img, f, "xattr-reader", P, Q, "ops-xwalk"))
        res = pmap(run_kind, jobs)
        for job, (kind, r, j) in zip(jobs, res):
            iname = job[6]
            if iname != "v1":
                kind = kind + "@" + iname
            case = {"case.json": json.dumps(dict(kind=job[3], P=P, Q=Q, image=iname))}
            rp = "python3 /verif/checks/C19.py --replay \"$PWD\""
            if r.timeout:
                cr.violation("C19|hang|" + kind, "exploration of %s did not finish" % kind, files=case, replay_sh=rp)
                continue
            if r.crashed or r.rc in (97, 99) or r.rc < 0:
                leak = b"LeakSanitizer" in r.err
                fp = "C19|%s|%s" % (kind, "leak" if leak and not b"ERROR: AddressSanitizer" in r.err else r.crash_fingerprint())
                cr.violation(fp, "object kind %s (pre-copy depth %d, post depth %d): %s\n%s" % (kind, P, Q, "memory leaked after all objects were released" if leak else "crash", r.err.decode("latin1")[-3000:]),
                             files=case, replay_sh=rp)
                continue
            if j is None:
                raise RuntimeError("no result for kind %s: rc=%d %s" % (kind, r.rc, r.err[-300:]))
            if j.get("skipped"):
                cr.note("%s: %s" % (kind, j["skipped"]))
                continue
            tot["histories"] += j["histories"]
            tot["ops_executed"] += j["ops_executed"]
            j["kind"] = kind
            per.append({k: j[k] for k in ("kind", "ops", "histories", "ops_executed", "failed_copies", "mismatches") if k in j})
            if j["mismatches"]:
                cr.violation("C19|%s|%s" % (kind, j["first"].split(";")[0]), "object kind %s: %d mismatching histories; first: %s" % (kind, j["mismatches"], j["first"]), files=case, replay_sh=rp)
        for p in per[:3] + per[-3:]:
            cr.sample(p)
        cr.coverage.update(states=len(per), transitions=tot["ops_executed"], traces_validated_against_impl=tot["histories"], evaluations=tot["histories"],
                           distinct_nontrivial=tot["histories"], kinds=per, pre_copy_depth=P, post_copy_depth=Q,
                           rule="Images: a gensquashfs image (all kinds) and an independently written image whose inode table exceeds 64 KiB, so that inode references need more than 32 bits "
                                "(metadata and directory readers). Object kinds: compressors gzip/xz/lz4/zstd/lzma x {compress, uncompress} x {default options, every option non-default} (do_block on 3 inputs, get_configuration), fragment table (append, set, lookup x2, "
                                "get_size), id table (id_to_index x2, index_to_id x2), metadata reader (seek+read), directory reader with flags 0 and DOT_ENTRIES (get_inode, readdir, "
                                "resolve_path), data reader (read, get_block, get_fragment, stream), xattr reader (read_all), read-only file (read_at x2, get_size; copying a writable file must "
                                "fail), xattr writer (3 begin/add/end sequences, flush to a memory file). Per kind: every pre-copy history of length <= P over its alphabet, copy, every sequence of "
                                "<= Q (object, operation) steps, then release original first / copy first and run every operation once more on the survivor. Each answer is compared with a fresh "
                                "object replaying that object's own history. traces = (pre, post, release order) cases executed on the real library; states = object kinds explored.")
        cr.assumptions += ["LeakSanitizer at process exit as the leak oracle", "answers hashed with FNV-1a 64"]
    return cr.finish()


if __name__ == "__main__":
    main_wrapper(main)
