#!/usr/bin/env python3
"""C04 — tar <-> SquashFS: bounded-exhaustive archive families from an own tar writer (all dialects, field encodings, sparse layouts,
xattr encodings, entry orders) -> tar2sqfs -> independent decoder == model; sqfs2tar output read back by Python tarfile and GNU tar;
tar -> sqfs -> tar -> sqfs -> tar fixpoint byte for byte."""
import os, sys, json, shutil, tempfile, io, tarfile, stat, hashlib, subprocess
sys.path.insert(0, os.path.dirname(os.path.dirname(os.path.abspath(__file__))))
from vlib.common import *
from vlib import build, tarmk, tarcases, sqfsck, packcheck, treegen

SCR = None
T = {}


def tree_from_tarfile(data):
    """independent reader #1: Python tarfile -> canon tree (paths without the root)"""
    tf = tarfile.open(fileobj=io.BytesIO(data))
    out = {}
    links = {}
    for m in tf.getmembers():
        p = os.fsencode(m.name).strip(b"/")
        if p.startswith(b"./"):
            p = p[2:]
        if p in (b"", b"."):
            continue
        e = dict(mode=m.mode & 0o7777, uid=m.uid, gid=m.gid, mtime=int(m.mtime))
        xa = {}
        for k, v in m.pax_headers.items():
            if k.startswith("SCHILY.xattr."):
                xa[os.fsencode(k[len("SCHILY.xattr."):])] = v.encode("utf-8", "surrogateescape")
        e["xattrs"] = xa
        if m.isdir():
            e["type"] = "dir"
        elif m.isreg():
            e["type"] = "file"
            d = tf.extractfile(m).read()
            e["size"] = len(d)
            e["sha"] = hashlib.sha256(d).hexdigest()
        elif m.issym():
            e["type"] = "slink"
            e["target"] = os.fsencode(m.linkname)
            e["mode"] = 0o777
        elif m.islnk():
            lt = os.fsencode(m.linkname).strip(b"/")
            links[p] = lt[2:] if lt.startswith(b"./") else lt
            continue
        elif m.ischr() or m.isblk():
            e["type"] = "chr" if m.ischr() else "blk"
            e["rdev"] = (m.devmajor << 8) | (m.devminor & 0xFF) | ((m.devminor & 0xFFF00) << 12)
        elif m.isfifo():
            e["type"] = "fifo"
        else:
            e["type"] = "other:%r" % m.type
        out[p] = e
    groups = {}
    for lp, tg in links.items():
        if tg in out:
            out[lp] = out[tg]
            groups.setdefault(tg, {tg}).add(lp)
    for tg, g in groups.items():
        out[tg]["links"] = tuple(sorted(g))
    return out


def tree_from_gnutar(data, wd):
    """independent reader #2: GNU tar extraction as root, then lstat"""
    d = os.path.join(wd, "gx")
    os.makedirs(d)
    r = subprocess.run(["tar", "-xpf", "-", "--numeric-owner", "--same-owner", "-C", d], input=data, capture_output=True)
    if r.returncode != 0:
        return None, r.stderr.decode("latin1")[-400:]
    out = {}
    groups = {}
    db = os.fsencode(d)
    for dp, dns, fns in os.walk(db):
        for n in dns + fns:
            full = os.path.join(dp, n)
            rel = os.path.relpath(full, db)
            st = os.lstat(full)
            m = st.st_mode
            e = dict(mode=stat.S_IMODE(m), uid=st.st_uid, gid=st.st_gid, mtime=int(st.st_mtime))
            if stat.S_ISDIR(m):
                e["type"] = "dir"
            elif stat.S_ISREG(m):
                e["type"] = "file"
                e["size"] = st.st_size
                e["sha"] = sha_file(full)
            elif stat.S_ISLNK(m):
                e["type"] = "slink"
                e["target"] = os.readlink(full)
                e["mode"] = 0o777
            elif stat.S_ISCHR(m) or stat.S_ISBLK(m):
                e["type"] = "chr" if stat.S_ISCHR(m) else "blk"
                e["rdev"] = (os.major(st.st_rdev) << 8) | (os.minor(st.st_rdev) & 0xFF) | ((os.minor(st.st_rdev) & 0xFFF00) << 12)
            elif stat.S_ISFIFO(m):
                e["type"] = "fifo"
            if e["type"] != "dir" and st.st_nlink > 1:
                groups.setdefault(st.st_ino, []).append(rel)
                e["_ino"] = st.st_ino
            out[rel] = e
    for p, e in out.items():
        if "_ino" in e:
            e["links"] = tuple(sorted(groups[e.pop("_ino")]))
    return out, None


def strip_root(tree):
    t = dict(tree)
    t.pop(b"", None)
    return t


def run_t2s(data, img, opts=()):
    return run_tool_hangcheck([T["tar2sqfs"], "-q", "-c", "gzip", "-b", "4096"] + list(opts) + [img], stdin=data, timeout=30)


def evaluate(case):
    label, data, ents, opts, model_kw = case
    wd = tempfile.mkdtemp(prefix="c", dir=SCR)
    try:
        img = os.path.join(wd, "i.sqfs")
        r = run_t2s(data, img, opts)

        def viol(fp, what, extra=None):
            f = {"input.tar": data, "case.json": json.dumps(dict(label=label, opts=list(opts)))}
            if extra:
                f.update(extra)
            return dict(status="violation", fp=fp, what="archive %s, tar2sqfs options %s\n%s" % (label, list(opts), what), files=f)
        fam = label.split("-")[0] + ("-" + label.split("-")[1].split("/")[0] if label.startswith(("sparse", "xattr")) else "")
        if r.timeout:
            return viol("C04|hang|tar2sqfs", "tar2sqfs did not terminate")
        if r.crashed:
            return viol("C04|crash|tar2sqfs|" + r.crash_fingerprint(), r.err.decode("latin1")[-2000:])
        exp = tarmk.expected_tree(ents, **model_kw)
        if exp is None:
            return dict(status="ok", sha="nomodel", stage="nomodel")
        if r.rc != 0:
            return viol("C04|tar2sqfs-refuses|%s" % fam, "exit %d on a supported archive: %s" % (r.rc, r.err.decode("latin1")[-400:]))
        im, err = packcheck.decode(img)
        if im is None:
            return viol("C04|undecodable", err)
        if im.violations:
            return viol("C04|invalid-image|" + im.violations[0][0], str(im.violations[:3]))
        got = sqfsck.canon_tree(im)
        diffs = treegen.diff_trees(exp, got)
        if diffs:
            import re
            m = re.match(r"(b'.*?'|b\".*?\"): (\w+) expected", diffs[0])
            attr = m.group(2) if m else "paths"
            return viol("C04|tar2sqfs-tree|%s|%s" % (attr, fam), "decoded tree differs from the archive's model:\n  " + "\n  ".join(diffs[:6]))
        # ---- sqfs2tar: read back by two independent tar implementations
        rt = run_tool_hangcheck([T["sqfs2tar"], img], timeout=30)
        if rt.crashed or rt.rc != 0:
            return viol("C04|sqfs2tar-fails|" + (rt.crash_fingerprint() if rt.crashed else fam), "rc=%d %s" % (rt.rc, rt.err.decode("latin1")[-600:]))
        t1 = rt.out
        want = strip_root(got)
        for p in list(want):
            if want[p]["type"] == "sock":
                del want[p]
        try:
            a = tree_from_tarfile(t1)
        except Exception as ex:
            return viol("C04|sqfs2tar-unreadable|tarfile|%s" % fam, "Python tarfile cannot read the sqfs2tar output: %r" % ex, {"out.tar": t1})
        d1 = treegen.diff_trees(want, a)
        if d1:
            return viol("C04|sqfs2tar-readback|tarfile|%s" % fam, "Python tarfile reads a different tree from the sqfs2tar output:\n  " + "\n  ".join(d1[:6]), {"out.tar": t1})
        b, gerr = tree_from_gnutar(t1, wd)
        if b is None:
            return viol("C04|sqfs2tar-unreadable|gnutar|%s" % fam, "GNU tar cannot extract the sqfs2tar output: %s" % gerr, {"out.tar": t1})
        # GNU tar cannot restore xattrs without --xattrs and sets directory mtimes late: compare what extraction defines
        d2 = treegen.diff_trees(want, b, ignore=("xattrs",))
        d2 = [x for x in d2 if not (": mtime expected" in x and want.get(eval(x.split(":")[0]), {}).get("type") in ("dir", "slink"))]
        if d2:
            return viol("C04|sqfs2tar-readback|gnutar|%s" % fam, "GNU tar extracts a different tree from the sqfs2tar output:\n  " + "\n  ".join(d2[:6]), {"out.tar": t1})
        # ---- fixpoint
        img2 = os.path.join(wd, "i2.sqfs")
        r2 = run_t2s(t1, img2)
        if r2.rc != 0 or r2.crashed:
            return viol("C04|fixpoint|tar2sqfs-refuses-own-output|%s" % fam, "tar2sqfs refuses sqfs2tar's output: rc=%d %s" % (r2.rc, r2.err.decode("latin1")[-400:]), {"out.tar": t1})
        im2, err = packcheck.decode(img2)
        if im2 is None:
            return viol("C04|fixpoint|undecodable", err)
        g2 = sqfsck.canon_tree(im2)
        d3 = treegen.diff_trees(strip_root(got), strip_root(g2))
        if d3:
            return viol("C04|fixpoint|tree-changes|%s" % fam, "image -> tar -> image changes the tree:\n  " + "\n  ".join(d3[:6]), {"out.tar": t1})
        rt2 = run_tool_hangcheck([T["sqfs2tar"], img2], timeout=30)
        img3 = os.path.join(wd, "i3.sqfs")
        r3 = run_t2s(rt2.out, img3)
        if rt2.rc != 0 or r3.rc != 0:
            return viol("C04|fixpoint|second-round-fails", "rc sqfs2tar=%d tar2sqfs=%d" % (rt2.rc, r3.rc))
        # the property: image -> tar -> image gives I'; doing it again (I' -> tar -> image) must reproduce I' byte for byte
        if sha_file(img3) != sha_file(img2):
            return viol("C04|fixpoint|image-not-byte-identical|%s" % ("entry with several xattrs" if fam.startswith("xattr") else fam), "converting the round-tripped image to tar and back once more gives a different image (tar outputs %s)" % (
                "identical" if rt2.out == t1 else "differ too"), {"out.tar": t1, "out2.tar": rt2.out})
        return dict(status="ok", sha=sha_file(img), stage="full")
    finally:
        shutil.rmtree(wd, ignore_errors=True)


def evaluate_image_first(case):
    """gensquashfs(tree) -> sqfs2tar [opts] -> two independent tar readers == transformed image tree"""
    names, spec, opts = case
    wd = tempfile.mkdtemp(prefix="i", dir=SCR)
    try:
        r, img, argv = packcheck.pack(spec, dict(comp="gzip", bs=4096), wd)
        if r is None or r.rc != 0:
            return dict(status="skip")
        im, err = packcheck.decode(img)
        if im is None:
            return dict(status="skip")
        full = sqfsck.canon_tree(im)
        rt = run_tool_hangcheck([T["sqfs2tar"]] + opts + [img], timeout=30)

        def viol(fp, what, extra=None):
            f = packcheck.artefact_files(wd, limit=300000)
            f["case.json"] = json.dumps(dict(templates=names, sqfs2tar_opts=opts))
            if extra:
                f.update(extra)
            return dict(status="violation", fp=fp, what="tree %s, sqfs2tar %s\n%s" % ("+".join(names), opts, what), files=f)
        if rt.timeout or rt.crashed:
            return viol("C04|sqfs2tar-crash|" + (rt.crash_fingerprint() if rt.crashed else "hang"), rt.err.decode("latin1")[-1500:])
        if rt.rc != 0:
            return viol("C04|sqfs2tar-fails|image-first|%s" % " ".join(opts), "rc=%d %s" % (rt.rc, rt.err.decode("latin1")[-500:]))
        want = {}
        prefix = b""
        if "-r" in opts:
            prefix = os.fsencode(opts[opts.index("-r") + 1])
        nsock = 0
        for p, n in full.items():
            n = dict(n)
            if n["type"] == "sock":
                nsock += 1
                continue
            if "-X" in opts:
                n["xattrs"] = {}
            if "-L" in opts:
                n.pop("links", None)
            elif "links" in n:
                n["links"] = tuple(sorted((prefix + b"/" + q if prefix not in (b"", b".") else q) for q in n["links"] if full[q]["type"] != "sock"))
            if p == b"":
                if prefix and prefix != b".":
                    want[prefix] = n
                continue
            want[(prefix + b"/" + p) if prefix not in (b"", b".") else p] = n
        sel = [os.fsencode(opts[i + 1]) for i in range(len(opts) - 1) if opts[i] == "-d"]
        if sel:
            # --subdir: only the selected directories; with --keep-as-dir (implied by more than one --subdir) under their full path together with
            # their parent directories, otherwise the single selected directory becomes the archive root
            keep = "-k" in opts or len(sel) > 1
            w2 = {}
            for p, n in want.items():
                for d_ in sel:
                    if keep and (p == d_ or p.startswith(d_ + b"/") or d_.startswith(p + b"/")):
                        w2[p] = n
                    elif not keep and p.startswith(d_ + b"/"):
                        w2[p[len(d_) + 1:]] = n
            want = w2
        if nsock and b"sock" not in rt.err.lower() and b"skip" not in rt.err.lower():
            return viol("C04|socket-skipped-silently", "image has %d socket inode(s), sqfs2tar printed no warning" % nsock)
        try:
            a = tree_from_tarfile(rt.out)
        except Exception as ex:
            return viol("C04|sqfs2tar-unreadable|tarfile|image-first", "Python tarfile cannot read the output: %r" % ex, {"out.tar": rt.out})
        d1 = treegen.diff_trees(want, a)
        if d1:
            return viol("C04|sqfs2tar-readback|tarfile|image-first|%s" % d1[0].split(": ")[1].split(" ")[0], "Python tarfile reads a different tree:\n  " + "\n  ".join(d1[:6]), {"out.tar": rt.out})
        if any(len(c) > 255 for p in want for c in p.split(b"/")):
            return dict(status="ok", sha=sha(rt.out))      # the host file system cannot hold a 256-byte name: no extraction
        b, gerr = tree_from_gnutar(rt.out, wd)
        if b is None:
            return viol("C04|sqfs2tar-unreadable|gnutar|image-first", "GNU tar cannot extract the output: %s" % gerr, {"out.tar": rt.out})
        d2 = treegen.diff_trees(want, b, ignore=("xattrs",))
        d2 = [x for x in d2 if not (": mtime expected" in x)]
        if d2:
            return viol("C04|sqfs2tar-readback|gnutar|image-first|%s" % d2[0].split(": ")[1].split(" ")[0], "GNU tar extracts a different tree:\n  " + "\n  ".join(d2[:6]), {"out.tar": rt.out})
        return dict(status="ok", sha=sha(rt.out))
    finally:
        shutil.rmtree(wd, ignore_errors=True)


def option_cases(tier):
    """(label, data, entries, tar2sqfs opts, model kwargs)"""
    E = tarcases.E
    base = [E(b"top", "dir", mode=0o700, uid=1, gid=2, xattrs={b"user.r": b"root"}), E(b"top/f", "file", content=b"ff", mtime=123, xattrs={b"user.a": b"1"}),
            E(b"top/l", "link", target=b"top/f"), E(b"top/s", "slink", target=b"f"), E(b"other/g", "file", content=b"gg")]
    data = tarmk.archive(base, "pax")
    out = [("opt-root-becomes", data, base, ["-r", "top"], dict(root_becomes=b"top")),
           ("opt-no-keep-time", data, base, ["-k"], dict(keep_time=False)),
           ("opt-no-xattr", data, base, ["-x"], dict(with_xattrs=False)),
           ("opt-defaults", data, base, ["-d", "uid=5,gid=6,mode=0711,mtime=77"], dict(defaults=dict(uid=5, gid=6, mode=0o711, mtime=77))),
           ("opt-no-tail-packing-exportable", data, base, ["-T", "-e"], {}),
           ("opt-no-keep-time-defaults", data, base, ["-k", "-d", "mtime=99"], dict(keep_time=False, defaults=dict(mtime=99)))]
    return out


def main():
    global SCR
    cr = CheckRun("C04", "exploration", default_budget=(420, 3000))
    with build.Scratch("C04") as sd:
        SCR = sd
        T.update(build.build_tools(build.variant("asan"), os.path.join(sd, "bin"), tools=["tar2sqfs", "sqfs2tar"]))
        if cr.replay:
            data = open(os.path.join(cr.replay, "input.tar"), "rb").read()
            c = json.load(open(os.path.join(cr.replay, "case.json")))
            img = os.path.join(sd, "r.sqfs")
            r = run_t2s(data, img, c["opts"])
            print("tar2sqfs rc", r.rc, r.err.decode("latin1")[-1500:])
            if os.path.exists(img):
                subprocess.run(["python3", os.path.join(VERIF, "vlib/sqfsck.py"), img])
            return 1
        # generator self-check: both reference tar implementations must read what the model says for the dialects they support
        chk = [tarcases.E(b"d", "dir"), tarcases.E(b"d/f", "file", content=b"x" * 700), tarcases.E(b"d/s", "slink", target=b"f")]
        for dialect in ("v7", "ustar", "gnu", "pax"):
            a = tree_from_tarfile(tarmk.archive(chk, dialect))
            exp = strip_root(tarmk.expected_tree(chk))
            d = treegen.diff_trees(exp, a)
            if d:
                raise RuntimeError("tarmk/%s disagrees with Python tarfile: %s" % (dialect, d[:3]))
        cases = [(label, data, ents, (), {}) for label, data, ents in tarcases.all_model_cases(cr.tier)] + option_cases(cr.tier)
        cr.coverage["planned_cases"] = len(cases)
        n_eval = 0
        seen = set()
        fams = {}
        chunk = 1500
        for off in range(0, len(cases), chunk):
            if cr.expired():
                cr.cap("deadline after %d of %d" % (off, len(cases)))
                break
            for c, r in zip(cases[off:off + chunk], pmap(evaluate, cases[off:off + chunk])):
                n_eval += 1
                fam = c[0].split("-")[0]
                fams[fam] = fams.get(fam, 0) + 1
                if r["status"] == "violation":
                    cr.violation(r["fp"], r["what"], files=r["files"], replay_sh="python3 /verif/checks/C04.py --replay \"$PWD\"")
                    continue
                seen.add(r["sha"])
        # image-first phase: richer trees (every inode type incl. sockets, hard links, xattrs, odd names) through sqfs2tar option sets
        packcheck.TOOLS.update(build.build_tools(build.variant("asan"), os.path.join(sd, "bin2"), tools=["gensquashfs"]))
        k = 1 if cr.quick else 2
        icases = []
        for names, spec in treegen.trees(k):
            if treegen.representable(spec):
                continue
            for opts in ([], ["-r", "."], ["-r", "rootdir"], ["-X"], ["-L"]):
                if len(names) == 2 and opts and opts != ["-L"]:
                    continue
                icases.append((list(names), spec, opts))
        # --subdir / --keep-as-dir on a tree in which one name is a string prefix of a sibling's name
        E_ = treegen.E
        subtree = [E_(b"bin", "dir", 0o755), E_(b"bin/sh", "file", content=b"sh"), E_(b"e", "file", content=b"e"), E_(b"etc", "dir", 0o755), E_(b"etc/x", "file", content=b"x"),
                   E_(b"lib", "dir", 0o700), E_(b"lib/y", "slink", 0o777, target=b"../etc/x"), E_(b"lib64", "dir", 0o711), E_(b"lib64/z", "file", content=b"z" * 5000),
                   E_(b"usr", "dir", 0o755), E_(b"usr/lib", "dir", 0o755), E_(b"usr/lib/a", "fifo", 0o600), E_(b"usr/lib64", "dir", 0o755), E_(b"usr/lib64/b", "file", content=b"b"),
                   E_(b"usr/lib64/sub", "dir", 0o755), E_(b"usr/lib64/sub/c", "file", content=b"c"), E_(b"usr/libexec", "file", content=b"exec")]
        for opts in (["-d", "lib64"], ["-k", "-d", "lib64"], ["-k", "-d", "usr/lib64"], ["-d", "usr/lib64"], ["-d", "usr/lib64", "-d", "etc"], ["-d", "lib", "-d", "lib64"],
                     ["-k", "-d", "usr/lib64/sub"], ["-d", "usr/lib64/sub"], ["-k", "-d", "usr"], ["-d", "e" "tc", "-d", "bin", "-d", "usr/lib"]):
            icases.append((["subdir-tree"], subtree, opts))
        n_img = 0
        for off in range(0, len(icases), chunk):
            if cr.expired():
                cr.cap("deadline in image-first phase after %d of %d" % (off, len(icases)))
                break
            for c, r in zip(icases[off:off + chunk], pmap(evaluate_image_first, icases[off:off + chunk])):
                if r["status"] == "skip":
                    continue
                n_eval += 1
                n_img += 1
                if r["status"] == "violation":
                    cr.violation(r["fp"], r["what"], files=r["files"])
                    continue
                seen.add(r["sha"])
        cr.coverage["image_first_cases"] = n_img
        for c in cases[::max(1, len(cases) // 5)][:5]:
            cr.sample({"archive": c[0], "bytes": len(c[1]), "tar2sqfs_opts": list(c[3])})
        cr.coverage.update(evaluations=n_eval, distinct_nontrivial=len(seen), cases_by_family=fams,
                           rule="Archives come from an own tar writer (validated against Python tarfile and GNU tar): one entry x dialect {v7, ustar+prefix, GNU L/K + base-256, PAX} x name/target "
                                "lengths around 100/155/256, sizes around 512 and the block size, uid/gid/mtime values in octal/base-256/PAX incl. negative and > 2^33, device numbers; sparse files in "
                                "4 formats x all 16 hole subsets of four 512-byte chunks + many-region maps + unaligned/all-hole/block-size cases; SCHILY and LIBARCHIVE xattrs (binary values); all "
                                "orders of dir/file/hard-link triples, './' and '/' prefixes, implicit parents, hard-link chains, links to fifos/symlinks, PAX global header and unknown typeflags; "
                                "tar2sqfs options --root-becomes/-k/-x/-d/-T/-e. distinct = distinct image sha256. Oracle: decoded tree == model (mtimes clamped), image valid; sqfs2tar output read "
                                "by Python tarfile and extracted by GNU tar equals the image's tree; image -> tar -> image keeps the tree and the second round is byte-identical (tar and image).")
        cr.assumptions += ["the model encodes tar2sqfs.1 only; the root inode's mtime is not compared when the archive has an entry for the root",
                           "GNU tar extraction is compared without xattrs and without directory/symlink mtimes"]
    return cr.finish()


if __name__ == "__main__":
    main_wrapper(main)
