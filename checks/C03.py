#!/usr/bin/env python3
"""C03 — on-disk invariants: every image produced by the bounded-exhaustive generators (trees x configurations,
sweeps, tar archives) is run through a validator written line by line from doc/format.adoc."""
import os, sys, json, shutil, tempfile, re
sys.path.insert(0, os.path.dirname(os.path.dirname(os.path.abspath(__file__))))
from vlib.common import *
from vlib import build, treegen, sqfsck, packcheck, packcases

SCR = None


def evaluate(case):
    wd = tempfile.mkdtemp(prefix="c", dir=SCR)
    try:
        spec, cfg, mode = case["spec"], case["cfg"], case["mode"]
        if case.get("tar") is not None:
            img = os.path.join(wd, "out.sqfs")
            argv = [packcheck.TOOLS["tar2sqfs"], "-q"] + packcheck.cfg_args(cfg)[1:] + [img]
            r = run_tool_hangcheck(argv, stdin=case["tar"], timeout=30)
        else:
            r, img, argv = packcheck.pack(spec, cfg, wd, mode=mode)
            if r is None:
                return dict(status="skipped")
        label = "%s %s cfg=%s" % (case["kind"], "+".join(case["names"]), json.dumps(cfg, sort_keys=True))
        if r.timeout or r.crashed or r.rc != 0 or not os.path.exists(img):
            return dict(status="noimage", rc=r.rc)     # C01/C04/C07 judge this; C03 speaks about produced images
        im, err = packcheck.decode(img, want_content=True, dev_block=(cfg.get("B", 4096) if isinstance(cfg, dict) else 4096))
        files = None

        def mkfiles():
            f = packcheck.artefact_files(wd)
            f["argv.json"] = json.dumps(argv)
            if case.get("tar") is not None:
                f["case/input.tar"] = case["tar"]
            return f
        comp = cfg.get("comp", "gzip")
        if im is None:
            rule = re.sub(r"\d+", "N", err)[:70]
            return dict(status="violation", viols=[("C03|undecodable|" + rule, label + "\n" + err)], files=mkfiles(), sha=sha_file(img))
        if im.violations:
            vs = []
            for rule, msg in im.violations:
                fp = "C03|" + rule + ("|" + comp if "never-larger" in rule else "")
                vs.append((fp, label + "\n" + rule + ": " + msg))
            return dict(status="violation", viols=vs, files=mkfiles(), sha=sha_file(img))
        return dict(status="ok", sha=sha_file(img), nmeta=len(im.meta_cache), nblocks=len(im.data_blocks), notes=im.notes[:3])
    finally:
        shutil.rmtree(wd, ignore_errors=True)


def extra_sweeps(tier):
    """sweeps aimed at single rules"""
    from vlib.treegen import E, content_pattern
    quick = tier == "quick"
    B = 4096
    # incompressible blocks of every small size / B-1 / B for every compressor (never-larger rule)
    for comp in ("gzip", "xz", "lz4", "zstd"):
        sizes = (list(range(1, 33)) if quick else list(range(1, 65))) + [B - 1, B]
        for s in sizes:
            for T in (0, 1):
                if T and s < B - 1:
                    continue
                spec = [E(b"r", "file", content=content_pattern("r%d" % s, s)), E(b"big", "file", content=content_pattern("R%d" % s, B + s))]
                yield dict(kind="sweep-incompressible", names=(comp, "size=%d" % s, "T=%d" % T), spec=spec, cfg=dict(comp=comp, bs=B, T=T), mode="packfile")
        # metadata that does not compress: many entries with hash-like names
        import hashlib
        for n in ((60, 400) if quick else (60, 130, 400, 1200)):
            spec = [E(hashlib.sha256(b"%d" % i).hexdigest().encode() * 2, "fifo", 0o600, i % 50, (i * 7) % 50) for i in range(n)]
            yield dict(kind="sweep-incompressible-meta", names=(comp, "n=%d" % n), spec=spec, cfg=dict(comp=comp, bs=B, e=1), mode="packfile")


def main():
    global SCR
    cr = CheckRun("C03", "exploration", default_budget=(420, 3000))
    with build.Scratch("C03") as sd:
        SCR = sd
        tools = build.build_tools(build.variant("asan"), os.path.join(sd, "bin"), tools=["gensquashfs", "tar2sqfs"])
        packcheck.TOOLS.update(tools)
        if cr.replay:
            argv = json.load(open(os.path.join(cr.replay, "argv.json")))
            print("replay: run", argv, "with inputs from", os.path.join(cr.replay, "case"), "then python3 vlib/sqfsck.py <image>")
            return 1
        quick = cr.quick
        k = 2 if quick else 3
        cfgs = packcases.CFG_QUICK if quick else packcases.CFG_THOROUGH[:8]
        cases = list(packcases.tree_cases(k, cfgs)) + list(packcases.sweep_cases(cr.tier)) + list(extra_sweeps(cr.tier))
        try:
            from vlib import tarcases
            cases += list(tarcases.c03_cases(cr.tier))
        except ImportError:
            cr.note("tar generator not built yet: tar2sqfs images not covered in this run")
        cr.coverage["planned_cases"] = len(cases)
        seen = set()
        n_eval = n_img = 0
        by_kind = {}
        chunk = 2000
        notes = set()
        for off in range(0, len(cases), chunk):
            if cr.expired():
                cr.cap("deadline after %d of %d cases" % (off, len(cases)))
                break
            res = pmap(evaluate, cases[off:off + chunk])
            for c, r in zip(cases[off:off + chunk], res):
                n_eval += 1
                if r["status"] in ("skipped", "noimage"):
                    continue
                n_img += 1
                by_kind[c["kind"]] = by_kind.get(c["kind"], 0) + 1
                seen.add(r["sha"])
                if r["status"] == "violation":
                    for fp, what in r["viols"]:
                        cr.violation(fp, what, files=r["files"], replay_sh="python3 /verif/checks/C03.py --replay \"$PWD\"")
                    continue
                for nt in r.get("notes", ()):
                    notes.add(re.sub(r"\d+", "N", nt))
                if len(cr.coverage["samples"]) < 5 and len(c["names"]) >= 2:
                    cr.sample({"kind": c["kind"], "case": list(c["names"]), "cfg": c["cfg"], "image_sha256": r["sha"][:16],
                               "metadata_blocks_checked": r["nmeta"], "data_blocks_checked": r["nblocks"]})
        for nt in sorted(notes)[:20]:
            cr.note("validator note (SHOULD/informational, not a violation): " + nt)
        cr.coverage.update(evaluations=n_eval, distinct_nontrivial=len(seen), images_validated=n_img, cases_by_kind=by_kind,
                           rule="Generators of C01 (trees of <=%d templates x configurations, boundary sweeps) and tar archives are re-driven; every image "
                                "that gensquashfs/tar2sqfs produced (exit 0) is decoded and checked against every invariant of format.adoc that the "
                                "validator encodes (superblock/log/padding/table order, metadata blocks <=8 KiB and never larger than their input, gap-free "
                                "chains, data blocks <= block size and never larger than input, fragments inside their block, listings strictly sorted, "
                                "<=256 entries per header, entries resolve to inodes of matching number and type, directory index points at headers, "
                                "inode numbers exactly 1..N, link counts, parent numbers, id/fragment/xattr/export references in bounds, export table entries). "
                                "distinct = distinct image sha256." % k)
        cr.assumptions += ["validator = vlib/sqfsck.py, derived from doc/format.adoc; only MUST-level statements are violations",
                           "device block size 4096 (default -B)"]
    return cr.finish()


if __name__ == "__main__":
    main_wrapper(main)
