#!/usr/bin/env python3
"""C08 — deduplication under colliding checksums: xxh32 is replaced at link time by a 0/1/2/4-bit checksum, so that
every same-size pair of blocks / fragments collides; all multisets of small files (all orders) are packed by the real
gensquashfs and decoded; plus the block processor under every schedule (in-flight fragment blocks) with a 0-bit checksum."""
import os, sys, json, shutil, tempfile, itertools, hashlib
sys.path.insert(0, os.path.dirname(os.path.dirname(os.path.abspath(__file__))))
from vlib.common import *
from vlib import build, sched, treegen, packcheck, sqfsck
from vlib.treegen import E, content_pattern

B = 4096
BLK = {"r1": content_pattern("r1", B), "r2": content_pattern("r2", B), "r3": content_pattern("r3", B), "A": b"A" * B, "Bb": b"B" * B, "Z": bytes(B)}
TAIL = {"t1": content_pattern("t1", 1500), "t2": content_pattern("t2", 1500), "t3": content_pattern("t3", 1500), "t4": content_pattern("t4", 1500),
        "tp": content_pattern("t1", 700), "t5": content_pattern("t5", 1500), "t6": content_pattern("t6", 1500), "t7": content_pattern("t7", 1500)}
VARIANTS = {}
SCR = None


def shape_bytes(shape):
    return b"".join(BLK[x] if x in BLK else TAIL[x] for x in shape)


def shapes(blocks, tails, maxblocks):
    out = []
    for nb in range(maxblocks + 1):
        for bs in itertools.product(blocks, repeat=nb):
            for t in [None] + list(tails):
                sh = tuple(bs) + ((t,) if t else ())
                if sh:
                    out.append(sh)
    return out


def evaluate(a):
    k, files, cfg = a
    wd = tempfile.mkdtemp(prefix="c", dir=SCR)
    try:
        spec = [E(b"f%d" % i, "file", content=shape_bytes(sh)) for i, sh in enumerate(files)]
        packcheck.TOOLS["gensquashfs"] = VARIANTS[k]
        sf = ("0 [glob_no_path,%s] *\n" % cfg["sort"]).encode() if cfg.get("sort") else None
        r, img, argv = packcheck.pack(spec, {k_: v_ for k_, v_ in cfg.items() if k_ != "sort"}, wd, sortfile=sf)
        label = "%d-bit checksum, files %s, cfg %s" % (k, ["+".join(s) for s in files], json.dumps(cfg, sort_keys=True))

        def viol(fp, what):
            f = packcheck.artefact_files(wd, limit=100000)
            f["case.json"] = json.dumps(dict(bits=k, files=files, cfg=cfg))
            return dict(status="violation", fp=fp, what=label + "\n" + what, files=f)
        if r.timeout:
            return viol("C08|hang", "gensquashfs did not terminate")
        if r.crashed:
            return viol("C08|crash|" + r.crash_fingerprint(), r.err.decode("latin1")[-2000:])
        if r.rc != 0:
            return viol("C08|pack-fails", "rc=%d %s" % (r.rc, r.err.decode("latin1")[-500:]))
        im, err = packcheck.decode(img)
        if im is None:
            return viol("C08|undecodable", err)
        facts = {}
        for i, sh in enumerate(files):
            n = im.tree.get(b"f%d" % i)
            want = hashlib.sha256(shape_bytes(sh)).hexdigest()
            if n is None or n.get("sha") != want:
                # which kind of unit was wrongly shared?
                unit = "fragment" if (sh and sh[-1] in TAIL and len(sh) == 1) else "blocks"
                return viol("C08|wrong-content|%s" % unit, "file f%d (%s) reads back with different bytes" % (i, "+".join(sh)))
            lay = n["layout"]
            facts[i] = (tuple((b[0], b[1]) for b in lay["blocks"] if not b[3]), lay["frag"][:2] if lay["frag"] else None)
        # identical files share storage
        shared = collide = 0
        for i in range(len(files)):
            for j in range(i + 1, len(files)):
                if files[i] == files[j]:
                    shared += 1
                    if facts[i] != facts[j]:
                        return viol("C08|identical-not-shared", "identical files f%d and f%d (%s) do not share storage: %r vs %r" % (i, j, "+".join(files[i]), facts[i], facts[j]))
                else:
                    # same-size distinct units exist => their (truncated) checksums may collide
                    if len(shape_bytes(files[i])) == len(shape_bytes(files[j])) or set(x for x in files[i] if x in TAIL and x != "tp") and set(x for x in files[j] if x in TAIL and x != "tp"):
                        collide += 1
        return dict(status="ok", sha=sha_file(img), shared=shared, collide=collide)
    finally:
        shutil.rmtree(wd, ignore_errors=True)


def main():
    global SCR
    cr = CheckRun("C08", "exploration", default_budget=(900, 6000))
    with build.Scratch("C08") as sd:
        SCR = sd
        bits = (0, 2) if cr.quick else (0, 1, 2, 4)
        for k in bits:
            VARIANTS[k] = build.build_tools(build.variant("hash%d" % k, workdir=sd), os.path.join(sd, "h%d" % k), tools=["gensquashfs"])["gensquashfs"]
        if cr.replay:
            case = json.load(open(os.path.join(cr.replay, "case.json")))
            if case.get("bp"):
                bexe = sched.build_bp_explorer(sd, xxh_bits=0)
                r = sched.replay(bexe, case["hargs"], os.path.join(cr.replay, "schedule.txt"))
                print(r.out.decode(), r.err.decode("latin1")[-3000:])
                return 1
            if case["bits"] not in VARIANTS:
                VARIANTS[case["bits"]] = build.build_tools(build.variant("hash%d" % case["bits"], workdir=sd), os.path.join(sd, "hx"), tools=["gensquashfs"])["gensquashfs"]
            print(evaluate((case["bits"], [tuple(f) for f in case["files"]], case["cfg"])))
            return 1
        jobs = []
        cfgs = [dict(comp="gzip", bs=B, j=1, Q=1), dict(comp="gzip", bs=B, j=4, Q=1000)]
        # per-file packing flags from a sort file change the block flags the writer sees (uncompressed blocks all have equal stored size)
        cfgs += [dict(comp="gzip", bs=B, j=1, Q=1, sort="dont_compress"), dict(comp="gzip", bs=B, j=2, Q=3, sort="dont_fragment")]
        # options that must have nothing to do with deduplication: export table, no tail packing, device block size
        cfgs += [dict(comp="gzip", bs=B, j=1, Q=1, e=1), dict(comp="gzip", bs=B, j=2, Q=3, T=1, B=8192)]
        if not cr.quick:
            cfgs += [dict(comp="lz4", bs=B, j=2, Q=3), dict(comp="zstd", bs=B, j=1, Q=1), dict(comp="xz", bs=B, j=3, Q=1000),
                     dict(comp="gzip", bs=B, j=1, Q=1, sort="nosparse"), dict(comp="zstd", bs=B, j=4, Q=1000, sort="dont_compress,dont_fragment")]
        S2 = shapes(["r1", "r2", "A", "Bb"], ["t1", "t2"], 2)      # 62 shapes
        S1 = shapes(["r1", "r2", "A"], ["t1", "t2", "tp"], 1)      # 15 shapes
        fams = []
        # all ordered pairs over the larger alphabet
        fams.append(("pairs", list(itertools.product(S2, repeat=2))))
        # all ordered triples over the smaller alphabet
        fams.append(("triples", list(itertools.product(S1, repeat=3))))
        # tails-only sequences: the third 1500-byte tail overflows the fragment block, later tails compare against blocks on disk / cached / evicted
        tl = [("t1",), ("t2",), ("t3",), ("t4",)]
        fams.append(("tail-sequences", [seq for n in (4, 5) for seq in itertools.product(tl, repeat=n)] if not cr.quick
                     else [seq for seq in itertools.product(tl[:3], repeat=4)] + [seq for seq in itertools.product(tl[:2], repeat=5)]))
        # several fragment blocks already on disk (two tails per block, stored uncompressed), then every sequence of <= 2 (thorough 3) look-ups of
        # tails that live in different on-disk blocks: the one-entry read-back cache is loaded, hit and evicted in every order
        base7 = [("t1",), ("t2",), ("t3",), ("t4",), ("t5",), ("t6",), ("t7",)]
        look = [("t1",), ("t2",), ("t3",), ("t4",), ("t5",), ("t6",)]
        fams.append(("ondisk-lookups", [tuple(base7) + seq for n in ((1, 2) if cr.quick else (1, 2, 3)) for seq in itertools.product(look, repeat=n)]))
        # holes inside block runs: all-zero blocks are never written, yet they are part of the run that is compared with earlier runs (leading,
        # embedded and trailing holes; a file that starts with a hole right after a file with data)
        SH = shapes(["r1", "Z"], ["t1"], 3)         # 29 shapes
        SH1 = shapes(["r1", "r2", "Z"], [], 2)      # 12 shapes
        fams.append(("holes-pairs", list(itertools.product(SH, repeat=2))))
        fams.append(("holes-triples", list(itertools.product(SH1, repeat=3))))
        if not cr.quick:
            S0 = shapes(["r1", "A"], ["t1", "t2"], 1)   # 8 shapes
            fams.append(("quads", list(itertools.product(S0, repeat=4))))
        for fname, fl in fams:
            for files in fl:
                for k in bits:
                    for ci, cfg in enumerate(cfgs):
                        if fname == "ondisk-lookups" and (k not in (0, 32) or cfg.get("sort")):
                            continue
                        if fname.startswith("holes") and (k not in (0, 32) or ci > 1):
                            continue
                        if fname in ("triples", "quads") and ci > 1 and (k != 0 or cfg.get("sort")):
                            continue
                        if cfg.get("sort") and k != 0:
                            continue
                        jobs.append((k, tuple(files), cfg))
        cr.coverage["planned_cases"] = len(jobs)
        cr.coverage["families"] = {f: len(l) for f, l in fams}
        n_eval = n_shared = n_collide = 0
        seen = set()
        chunk = 4000
        for off in range(0, len(jobs), chunk):
            if cr.time_left() < 60:
                cr.cap("deadline after %d of %d cases" % (off, len(jobs)))
                break
            for job, r in zip(jobs[off:off + chunk], pmap(evaluate, jobs[off:off + chunk])):
                n_eval += 1
                if r["status"] == "violation":
                    cr.violation(r["fp"], r["what"], files=r["files"], replay_sh="python3 /verif/checks/C08.py --replay \"$PWD\"")
                    continue
                seen.add(r["sha"])
                n_shared += r["shared"]
                n_collide += r["collide"]
                if len(cr.coverage["samples"]) < 4 and r["shared"] and r["collide"]:
                    cr.sample({"checksum_bits": job[0], "files": ["+".join(f) for f in job[1]], "cfg": job[2], "image_sha256": r["sha"][:16]})
        # in-flight fragment blocks: block processor under every schedule with a 0-bit checksum
        bp = []
        if cr.time_left() <= 30:
            cr.cap("deadline before the schedule scenarios")
        if cr.time_left() > 30:
            bexe = sched.build_bp_explorer(sd, xxh_bits=0)
            scen = ["+r20,+s20,+r20", "+r20,+s20,+t20,+s20", "a1,b1,a1", "a1+r5,b1+s5,a1+r5"] + ([] if cr.quick else
                   ["+r20,+s20,+t20,+r20,+t20", "a2,b2,a1b1".replace("a1b1", "a1"), "a1+r20,+s20,b1+r20,+s20", "A1,Bb1".replace("Bb1", "C1") + ",A1"])
            for sc in scen:
                for wk in ((2,) if cr.quick else (2, 3)):
                    left = cr.time_left()
                    if left < 15:
                        cr.cap("deadline before schedule scenario %s" % sc)
                        break
                    j, r = sched.explore(bexe, [wk, 3, sc], bound=-1 if wk == 2 else 2, deadline=max(10, left - 10), unlock_points=True)
                    if j is None:
                        raise RuntimeError("bp explorer failed: %s" % r.err[-300:])
                    bp.append(dict(workers=wk, scenario=sc, executions=j["executions"], states=j["states"], capped=j["capped"]))
                    n_eval += j["executions"]
                    if j["capped"]:
                        cr.cap("schedule scenario %s capped" % sc)
                    if j["violation"]:
                        v = j["violation"]
                        cr.violation("C08|schedule|%s" % v["msg"].split(":")[1].strip()[:50] if ":" in v["msg"] else "C08|schedule",
                                     "block processor with 0-bit checksum, %d workers, scenario %r\n%s" % (wk, sc, v["msg"]),
                                     files={"case.json": json.dumps(dict(bp=True, hargs=[wk, 3, sc], violation=v)),
                                            "schedule.txt": " ".join(str(x) for x in v["schedule_choices"]) + "\n"})
        if n_shared == 0 or n_collide == 0:
            cr.note("VACUOUS: shared=%d collide=%d" % (n_shared, n_collide))
        cr.coverage.update(evaluations=n_eval, distinct_nontrivial=len(seen), identical_pairs_checked_for_sharing=n_shared,
                           colliding_distinct_pairs=n_collide, schedule_scenarios=bp, checksum_bits=list(bits),
                           rule="gensquashfs is linked with xxh32 truncated to k bits (k=0: every checksum equal). Files are concatenations of <=2 blocks from "
                                "{r1,r2 (incompressible, stored raw, equal stored size), A, Bb (uniform, equal compressed size)} and a tail from {t1,t2 (1500 B), tp (prefix of t1)}: "
                                "all ordered pairs over 62 shapes, all ordered triples over 15 shapes, tails-only sequences of length 4-5 (fragment block overflow, "
                                "comparison against fragment blocks in memory / on disk / cached / evicted), x checksum widths x (-j,-Q) x compressors. "
                                "distinct = distinct image sha256. Oracle: every file byte-exact through the independent decoder; identical files share blocks_start, block list and fragment location. "
                                "Plus the block processor under the controlled scheduler with a 0-bit checksum: every file read back byte-exact in every schedule.")
        cr.assumptions += ["collisions are forced by truncation, not found in the 32-bit checksum", "SQFSCK decoder"]
    return cr.finish()


if __name__ == "__main__":
    main_wrapper(main)
