#!/usr/bin/env python3
"""C12 — partial transfers: every read/pread/write/pwrite of a tool run is, one at a time (deviation bound 1, then 2),
answered with a short count or EINTR; plus global small-transfer modes and pipe chunkings. Output and exit status must
equal the undisturbed run."""
import os, sys, json, shutil, tempfile, itertools, subprocess
sys.path.insert(0, os.path.dirname(os.path.dirname(os.path.abspath(__file__))))
from vlib.common import *
from vlib import build, envscn, envrun

SC = {}
XFER = ("read", "pread", "write", "pwrite")


import multiprocessing as _mp
HANGS = _mp.Value("i", 0)


def run_plan(a):
    sname, plan = a
    s = SC[sname]
    # the scenarios take milliseconds; a run that exceeds 20 s is re-run alone with 120 s before it is called a hang. After three confirmed
    # hangs further 20 s timeouts are reported without the long re-run (a tree that hangs on a whole family of plans would cost hours otherwise)
    r = s.run(plan=plan, want_log=False, timeout=20)
    if r["timeout"] and HANGS.value < 3:
        r = s.run(plan=plan, want_log=False, timeout=120)
        if r["timeout"]:
            with HANGS.get_lock():
                HANGS.value += 1
    r.pop("log", None)
    r["err"] = r["err"][-1500:]
    return sname, plan, r


def deviations(log):
    """bound-1 deviation list from a baseline log"""
    out = []
    for cls in XFER:
        for l in log:
            if l[0] != cls:
                continue
            k, req, ret = l[1], l[3], l[4]
            if ret <= 0:
                # a call that returned 0 (EOF) or failed: only EINTR makes sense
                out.append("eintr:%s#%d" % (cls, k))
                continue
            cands = {1, max(1, ret // 2), max(1, ret - 1)}
            for n in sorted(cands):
                if n < ret:
                    out.append("short:%s#%d=%d" % (cls, k, n))
            out.append("eintr:%s#%d" % (cls, k))
    return out


def pipe_run(s, chunk, mode):
    """feed stdin / drain stdout through real pipes in chunks"""
    rd = tempfile.mkdtemp(prefix="p", dir=s.base)
    try:
        outp = os.path.join(rd, "out")
        argv = s.argv_fn(s.base, outp)
        env = dict(CLEAN_ENV)
        env["VERIF_ENV_PLAN"] = ""
        if mode == "stdin":
            data = open(s.stdin_file(s.base), "rb").read()
            p = subprocess.Popen(argv, stdin=subprocess.PIPE, stdout=subprocess.DEVNULL, stderr=subprocess.PIPE, env=env, cwd=rd)
            try:
                for i in range(0, len(data), chunk):
                    os.write(p.stdin.fileno(), data[i:i + chunk])
            except BrokenPipeError:
                pass
            p.stdin.close()
            err = p.stderr.read()
            rc = p.wait()
            return rc, (sha_file(outp) if os.path.exists(outp) else None), err
        else:
            p = subprocess.Popen(argv, stdin=subprocess.DEVNULL, stdout=subprocess.PIPE, stderr=subprocess.PIPE, env=env, cwd=rd)
            h = hashlib.sha256()
            while True:
                b = os.read(p.stdout.fileno(), chunk)
                if not b:
                    break
                h.update(b)
            err = p.stderr.read()
            rc = p.wait()
            return rc, h.hexdigest(), err
    finally:
        shutil.rmtree(rd, ignore_errors=True)


def pipe_lockstep(s, chunk, via):
    """the slowest possible pipe: every chunk is handed over only after the tool has drained the pipe and is blocked in read() again (observed through
    /proc/<pid>/syscall), the first chunk only after it blocks on the still empty pipe. via: 'stdin' (the scenario's stdin) or 'packfile' (-F /dev/stdin)"""
    import time
    rd = tempfile.mkdtemp(prefix="l", dir=s.base)
    try:
        outp = os.path.join(rd, "out")
        argv = s.argv_fn(s.base, outp)
        if via == "packfile":
            i = argv.index("-F")
            data = open(argv[i + 1], "rb").read()
            argv = argv[:i + 1] + ["/dev/stdin"] + argv[i + 2:]
        else:
            data = open(s.stdin_file(s.base), "rb").read()
        env = dict(CLEAN_ENV)
        env["VERIF_ENV_PLAN"] = ""
        p = subprocess.Popen(argv, stdin=subprocess.PIPE, stdout=subprocess.DEVNULL, stderr=subprocess.PIPE, env=env, cwd=rd)

        def blocked():
            t0 = time.time()
            while time.time() - t0 < 30:
                if p.poll() is not None:
                    return False
                try:
                    f = open("/proc/%d/syscall" % p.pid).read().split()
                    if f and f[0] == "0" and open("/proc/%d/stat" % p.pid).read().rsplit(")", 1)[1].split()[0] == "S":
                        return True
                except OSError:
                    return False
                time.sleep(0.001)
            return False
        handed = 0
        try:
            for i in range(0, len(data), chunk):
                if not blocked():
                    break
                os.write(p.stdin.fileno(), data[i:i + chunk])
                handed += 1
        except BrokenPipeError:
            pass
        p.stdin.close()
        err = p.stderr.read()
        rc = p.wait()
        return rc, (sha_file(outp) if os.path.exists(outp) else None), err, handed
    finally:
        shutil.rmtree(rd, ignore_errors=True)


PLAIN = {}


def main():
    cr = CheckRun("C12", "fault_enumeration", default_budget=(420, 2400))
    with build.Scratch("C12") as sd:
        tools = build.build_tools(build.variant("envwrap"), os.path.join(sd, "bin"), tools=["gensquashfs", "tar2sqfs", "rdsquashfs", "sqfs2tar"])
        scns = envscn.build_scenarios(tools, os.path.join(sd, "scn"), cr.tier)
        for s in scns:
            SC[s.name] = s
        if cr.replay:
            case = json.load(open(os.path.join(cr.replay, "case.json")))
            s = SC[case["scenario"]]
            b = s.run(plan="")
            r = s.run(plan=case["plan"])
            print("baseline rc=%d snap=%s\nplan %s rc=%d snap=%s\n%s" % (b["rc"], str(b["snap"])[:80], case["plan"], r["rc"], str(r["snap"])[:80], r["err"].decode("latin1")[-800:]))
            return 1 if (r["rc"], r["snap"]) != (b["rc"], b["snap"]) else 0

        n_eval = 0
        distinct = set()
        per = []
        jobs = []
        base = {}
        for s in scns:
            b1 = s.run(plan="", want_log=True)
            b2 = s.run(plan="", want_log=True)
            if b1["rc"] != 0 or b1["crashed"]:
                # no deviation was injected: every call completed in full. If the plain build (no controller, no sanitizer) succeeds on the same
                # input, the result depends on ambient state the controller build differs in (a stale errno, uninitialised memory ...)
                if PLAIN.get("tools") is None:
                    PLAIN["tools"] = build.build_tools(build.variant("plain"), os.path.join(sd, "plain"), tools=["gensquashfs", "tar2sqfs", "sqfs2tar", "rdsquashfs"])
                pb = s.run(plan="", tools=PLAIN["tools"])
                if pb["rc"] == 0 and not pb["crashed"]:
                    cr.violation("C12|undisturbed-run-differs-between-builds|%s" % s.tool,
                                 "scenario %s: with every call completing in full the tool fails under the environment controller (rc=%d: %s) but succeeds as a plain build" % (
                                     s.name, b1["rc"], b1["err"].decode("latin1")[-300:].strip()),
                                 files={"case.json": json.dumps(dict(scenario=s.name, plan="", note="baseline differs between builds"))})
                    continue
                raise RuntimeError("undisturbed run of scenario %s fails rc=%d %s" % (s.name, b1["rc"], b1["err"].decode("latin1")[-600:]))
            l1 = [l[:5] for l in b1["log"] if l[0] in XFER]
            l2 = [l[:5] for l in b2["log"] if l[0] in XFER]
            if l1 != l2 or b1["snap"] != b2["snap"]:
                cr.cap("scenario %s: transfer log differs between two undisturbed runs; deviation enumeration skipped for it" % s.name)
                continue
            base[s.name] = b1
            devs = deviations(b1["log"])
            caps = ["cap:read=%d;cap:pread=%d;cap:write=%d;cap:pwrite=%d" % (n, n, n, n) for n in (1, 7, 511, 513)]
            for d in devs + caps:
                jobs.append((s.name, d))
            per.append(dict(scenario=s.name, calls={c: envrun.count(b1["log"], c) for c in XFER}, bound1_deviations=len(devs), global_modes=len(caps)))
        # bound 2 on the smallest scenarios (thorough): all pairs of deviations at different call sites
        if not cr.quick:
            for name in ("rdsquashfs-cat", "tar2sqfs-plain"):
                if name in base:
                    devs = deviations(base[name]["log"])
                    pairs = [a + ";" + b for a, b in itertools.combinations(devs, 2) if a.split("=")[0].split(":")[1] != b.split("=")[0].split(":")[1]]
                    if len(pairs) > 60000:
                        cr.cap("bound 2 on %s: %d pairs, first 60000 explored" % (name, len(pairs)))
                        pairs = pairs[:60000]
                    for p in pairs:
                        jobs.append((name, p))
                    per.append(dict(scenario=name, bound2_pairs=len(pairs)))

        def judge(sname, plan, r):
            b = base[sname]
            if r["crashed"]:
                return "C12|crash|%s|%s" % (SC[sname].tool, r["crash_fp"]), "crashed: %s" % r["err"].decode("latin1")[-1500:]
            if r["timeout"]:
                return "C12|hang|%s" % SC[sname].tool, "did not terminate"
            if r["rc"] != b["rc"]:
                return "C12|exit-status|%s|%s" % (SC[sname].tool, plan.split("#")[0].split(";")[0]), "exit status %d instead of %d\nstderr: %s" % (r["rc"], b["rc"], r["err"].decode("latin1")[-600:])
            if r["snap"] != b["snap"]:
                return "C12|output-differs|%s|%s" % (SC[sname].tool, plan.split("#")[0].split(";")[0]), "output differs from the undisturbed run (exit status %d)" % r["rc"]
            return None, None

        chunk = 4000
        for off in range(0, len(jobs), chunk):
            if cr.expired():
                cr.cap("deadline after %d of %d plans" % (off, len(jobs)))
                break
            for sname, plan, r in pmap(run_plan, jobs[off:off + chunk]):
                n_eval += 1
                distinct.add((sname, plan.split("=")[0] if ";" not in plan else plan))
                fp, what = judge(sname, plan, r)
                if fp:
                    cr.violation(fp, "scenario %s, plan %s\n%s" % (sname, plan, what),
                                 files={"case.json": json.dumps(dict(scenario=sname, plan=plan))},
                                 replay_sh="python3 /verif/checks/C12.py --replay \"$PWD\"")
        # real pipes
        pipe_n = 0
        for name, mode in (("tar2sqfs-plain", "stdin"), ("tar2sqfs-gzip", "stdin"), ("sqfs2tar", "stdout"), ("sqfs2tar-xz", "stdout"), ("rdsquashfs-cat", "stdout")):
            if name not in base:
                continue
            for chunk_sz in ((7, 512, 65536) if cr.quick else (1, 2, 3, 7, 511, 512, 513, 4095, 65536)):
                rc, snap, err = pipe_run(SC[name], chunk_sz, mode)
                pipe_n += 1
                n_eval += 1
                distinct.add((name, "pipe", chunk_sz))
                if rc != base[name]["rc"] or snap != base[name]["snap"]:
                    cr.violation("C12|pipe|%s|%s" % (SC[name].tool, mode), "scenario %s with %s pipe chunks of %d bytes: rc=%d, output %s\n%s" % (
                        name, mode, chunk_sz, rc, "differs" if snap != base[name]["snap"] else "same", err.decode("latin1")[-500:]),
                        files={"case.json": json.dumps(dict(scenario=name, pipe=mode, chunk=chunk_sz, plan=""))})
        for p in per[:4]:
            cr.sample(p)
        cr.sample({"example_plans": [j[1] for j in jobs[:3]] + [j[1] for j in jobs[-2:]]})
        # lock-step pipes: the reader always finds the pipe empty and has to wait for every chunk (also for input files named /dev/stdin)
        for name, via in (("tar2sqfs-plain", "stdin"), ("tar2sqfs-gzip", "stdin"), ("gensquashfs-packfile-sort-xattr", "packfile")):
            if name not in base:
                continue
            for chunk_sz in ((512,) if cr.quick else (7, 512, 4096)):
                rc, snap, err, handed = pipe_lockstep(SC[name], chunk_sz, via)
                pipe_n += 1
                n_eval += 1
                distinct.add((name, "lockstep", chunk_sz))
                if rc != base[name]["rc"] or snap != base[name]["snap"]:
                    cr.violation("C12|pipe-lockstep|%s|%s" % (SC[name].tool, via), "scenario %s, %s fed through a pipe in lock step (chunk %d bytes, each handed over after the tool blocked in read; %d chunks handed over): rc=%d, output %s\n%s" % (
                        name, via, chunk_sz, handed, rc, "differs" if snap != base[name]["snap"] else "same", err.decode("latin1")[-500:]),
                        files={"case.json": json.dumps(dict(scenario=name, pipe="lockstep-" + via, chunk=chunk_sz, plan=""))})
        cr.coverage.update(evaluations=n_eval, distinct_nontrivial=len(distinct), scenarios=per, pipe_runs=pipe_n,
                           rule="Per scenario the undisturbed run's log lists every read/pread/write/pwrite with requested and returned size. Bound 1: every call index x "
                                "{short count 1, half, n-1, EINTR}; global modes: every transfer capped to 1/7/511/513 bytes; thorough: bound 2 = all pairs of deviations "
                                "on different call classes for the two smallest scenarios; real pipes with writer/reader chunk sizes. distinct = distinct (scenario, call "
                                "site, deviation kind). Oracle: exit status and output (image bytes / stdout bytes / unpacked tree incl. modes and contents) equal the undisturbed run; ASan clean.")
        cr.assumptions += ["short transfers are real (the shim passes the reduced count to the kernel), EINTR has no side effect",
                           "-j 1 so that the call sequence is reproducible (checked by running the baseline twice)"]
    return cr.finish()


if __name__ == "__main__":
    main_wrapper(main)
