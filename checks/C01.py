#!/usr/bin/env python3
"""C01 — packing fidelity: bounded-exhaustive trees x configurations + 1-D boundary sweeps through the real
gensquashfs (ASan); oracle = independent decoder (SQFSCK) tree == specification, kernel loop mount cross-check,
rdsquashfs views."""
import os, sys, json, shutil, tempfile, re
sys.path.insert(0, os.path.dirname(os.path.dirname(os.path.abspath(__file__))))
from vlib.common import *
from vlib import build, treegen, sqfsck, kmount, packcheck, packcases

SCR = None


def first_line(b):
    s = b.decode("latin1", "replace").strip().splitlines()
    s = [l for l in s if l.strip()]
    return re.sub(r"/tmp/\S+", "<path>", s[0])[:100] if s else ""


def entry_kind(spec, path):
    for e in spec:
        if e["path"] == path:
            return e["type"]
    return "implicit-dir" if path else "root"


def evaluate(case):
    """returns dict(status, fp, what, sha, files)"""
    wd = tempfile.mkdtemp(prefix="c", dir=SCR)
    try:
        spec, cfg, mode = case["spec"], case["cfg"], case["mode"]
        r, img, argv = packcheck.pack(spec, cfg, wd, mode=mode)
        label = "%s %s cfg=%s mode=%s" % (case["kind"], "+".join(case["names"]), json.dumps(cfg, sort_keys=True), mode)
        if r is None:
            return dict(status="skipped", why=str(argv)[:200])

        def viol(fp, what, extra_files=None):
            files = packcheck.artefact_files(wd)
            files["argv.json"] = json.dumps(argv)
            files["case.json"] = json.dumps(dict(kind=case["kind"], names=case["names"], cfg=cfg, mode=mode))
            if extra_files:
                files.update(extra_files)
            cmd = " ".join("'%s'" % a.replace(wd, "$PWD/case").replace(packcheck.TOOLS["gensquashfs"], "gensquashfs") for a in argv)
            return dict(status="violation", fp=fp, what=label + "\n" + what, files=files,
                        replay_sh="# needs a gensquashfs built from /repo on PATH (python3 /verif/vlib/build.py asan /tmp/b; PATH=/tmp/b:$PATH)\n" + cmd)
        if r.timeout:
            return viol("C01|hang|gensquashfs", "gensquashfs did not terminate (limit x10 re-run)")
        if r.crashed:
            return viol("C01|crash|" + r.crash_fingerprint(), "gensquashfs crashed rc=%d\n%s" % (r.rc, r.err.decode("latin1")[-2500:]))
        why_not = treegen.representable(spec)
        if why_not:
            if r.rc == 0:
                return viol("C01|accepted-unrepresentable|" + why_not, "exit 0 although the format cannot hold the input (%s)" % why_not)
            if os.path.exists(img):
                return viol("C01|refused-but-output-left|" + why_not, "exit %d but the output file exists" % r.rc)
            return dict(status="ok", sha="refused:" + why_not, refused=True)
        if r.rc != 0:
            return viol("C01|refused-representable|" + first_line(r.err), "exit %d on a representable tree\nstderr: %s" % (r.rc, r.err.decode("latin1")[-800:]))
        im, err = packcheck.decode(img, dev_block=cfg.get("B", 4096))
        if im is None:
            return viol("C01|undecodable|" + re.sub(r"\d+", "N", err)[:80], err)
        got = sqfsck.canon_tree(im)
        kw = packcheck.cfg_model_kwargs(cfg)
        if mode == "packdir":
            exp = treegen.expected_tree(spec, mode="packdir", keep_time=bool(cfg.get("keep_time")), **kw)
        else:
            exp = treegen.expected_tree(spec, mode="packfile", **kw)
        diffs = treegen.diff_trees(exp, got)
        if diffs:
            m = re.match(r"(b'.*?'|b\".*?\"): (\w+) expected", diffs[0])
            if m:
                path = eval(m.group(1))
                fp = "C01|tree|%s|%s" % (m.group(2), entry_kind(spec, path))
            else:
                fp = "C01|tree|paths"
            return viol(fp, "decoded tree differs from the specification:\n  " + "\n  ".join(diffs[:8]))
        out = dict(status="ok", sha=sha_file(img))
        if case["kind"].startswith("sweep-listing") and b"W" in im.tree:
            out["listing_size"] = im.tree[b"W"]["dsize"] - 3
        # rdsquashfs views on a subset: cat every file, list root
        if case.get("readers"):
            rd = packcheck.TOOLS["rdsquashfs"]
            for p, n in exp.items():
                if n["type"] == "file" and n["size"] < 1 << 22:
                    rr = run_tool([rd, "-c", p.decode("latin1") if False else os.fsdecode(p), img], timeout=20)
                    if rr.crashed:
                        return viol("C01|crash|rdsquashfs-c|" + rr.crash_fingerprint(), rr.err.decode("latin1")[-2000:])
                    if rr.rc != 0 or sha(rr.out) != n["sha"]:
                        return viol("C01|rdsquashfs-cat", "rdsquashfs -c %r: rc=%d, %d bytes, content differs from input" % (p, rr.rc, len(rr.out)))
            # unpack and compare (as root: devices, owners)
            ud = os.path.join(wd, "unp")
            rr = run_tool([rd, "-u", "/", "-p", ud, "-q", "-C", "-O", "-T", "-X", img], timeout=30)
            if rr.crashed:
                return viol("C01|crash|rdsquashfs-u|" + rr.crash_fingerprint(), rr.err.decode("latin1")[-2000:])
            if rr.rc != 0:
                if not any(n["type"] == "sock" for n in exp.values()) and not any(len(c_) > 255 for p_ in exp for c_ in p_.split(b"/")):
                    return viol("C01|rdsquashfs-unpack-fails", "rdsquashfs -u / -C -O -T -X exits %d on the image: %s" % (rr.rc, rr.err.decode("latin1")[-500:]))
                # trees with sockets or with names the host file system cannot hold (> 255 bytes): the exit status is not judged
                out["unpack_rc"] = rr.rc
            else:
                bad = compare_unpacked(exp, ud)
                if bad:
                    return viol("C01|rdsquashfs-unpack|" + bad[0].split(":")[1].strip().split(" ")[0], "unpacked tree differs:\n  " + "\n  ".join(bad[:6]))
        if case.get("kernel") and kmount.available() and cfg.get("comp") in ("gzip", "xz", "lz4", "zstd"):
            kt = kmount.walk(img)
            if kt is not None:
                kd = kmount.compare(got, kt)
                out["kernel"] = "agree" if not kd else "DISAGREE: " + "; ".join(kd[:3])
        return out
    finally:
        shutil.rmtree(wd, ignore_errors=True)


def evaluate_huge(case):
    """a file larger than 4 GiB made of holes (host sparse file), --pack-dir; sizes around 2^32, markers at 0, 2^31-1 and the end"""
    import hashlib, subprocess
    size, bs, comp = case["size"], case["bs"], case["comp"]
    wd = tempfile.mkdtemp(prefix="h", dir=SCR)
    label = "huge %s file size=%d bs=%d comp=%s" % ("dense (no hole)" if case.get("dense") else "sparse", size, bs, comp)
    try:
        src = os.path.join(wd, "src")
        os.makedirs(src)
        marks = [(0, b"HEAD"), ((1 << 31) - 2, b"MID!"), (size - 3, b"END")]
        if case.get("dense"):
            # no block of the file is a hole: one non-zero byte in every block (the size passes 2^32 on a basic, not yet extended inode)
            marks = [(i * bs + 9, b"\x01") for i in range((size - 3) // bs + 1) if i * bs + 10 <= size - 3] + [(size - 3, b"END")]
        fn = os.path.join(src, "huge")
        with open(fn, "wb") as f:
            f.truncate(size)
            for off, m in marks:
                f.seek(off)
                f.write(m)
        open(os.path.join(src, "small"), "wb").write(b"small file\n")
        # expected digest, streamed
        h = hashlib.sha256()
        zero = bytes(1 << 20)
        pos = 0
        for off, m in sorted(marks):
            while pos < off:
                n = min(len(zero), off - pos)
                h.update(zero[:n])
                pos += n
            h.update(m)
            pos += len(m)
        while pos < size:
            n = min(len(zero), size - pos)
            h.update(zero[:n])
            pos += n
        want = h.hexdigest()
        img = os.path.join(wd, "out.sqfs")
        argv = [packcheck.TOOLS["gensquashfs"], "-q", "-c", comp, "-b", str(bs), "-D", src, img]
        r = run_tool(argv, timeout=900)

        def viol(fp, what):
            return dict(status="violation", fp=fp, what=label + "\n" + what, files={"case.json": json.dumps(dict(kind="huge", size=size, bs=bs, comp=comp, dense=bool(case.get("dense"))))},
                        replay_sh="python3 /verif/checks/C01.py --replay \"$PWD\"")
        if r.timeout:
            return viol("C01|hang|gensquashfs|huge", "gensquashfs did not finish in 900 s")
        if r.crashed:
            return viol("C01|crash|" + r.crash_fingerprint(), r.err.decode("latin1")[-2500:])
        if r.rc != 0:
            return viol("C01|refused-representable|huge", "exit %d: %s" % (r.rc, r.err.decode("latin1")[-500:]))
        im, err = packcheck.decode(img, max_file_bytes=1 << 40)
        if im is None:
            return viol("C01|undecodable|huge", err)
        n = im.tree.get(b"huge")
        if n is None or n["size"] != size or n["sha"] != want:
            return viol("C01|tree|content|huge", "decoded file: %s" % ({k: n[k] for k in ("size", "sha")} if n else None) + " expected size %d sha %s" % (size, want))
        if im.violations:
            return viol("C01|invalid-image|huge|" + im.violations[0][0], str(im.violations[:3]))
        # tool view: rdsquashfs -c, streamed
        p = subprocess.Popen([packcheck.TOOLS["rdsquashfs"], "-c", "huge", img], stdout=subprocess.PIPE, stderr=subprocess.PIPE, env=CLEAN_ENV)
        h = hashlib.sha256()
        total = 0
        while True:
            b = p.stdout.read(1 << 20)
            if not b:
                break
            h.update(b)
            total += len(b)
        err = p.stderr.read()
        rc = p.wait()
        if rc != 0 or total != size or h.hexdigest() != want:
            return viol("C01|rdsquashfs-cat|huge", "rdsquashfs -c huge: rc=%d, %d bytes (expected %d), digest %s\n%s" % (rc, total, size, "equal" if h.hexdigest() == want else "differs", err.decode("latin1")[-500:]))
        return dict(status="ok", sha=sha_file(img))
    finally:
        shutil.rmtree(wd, ignore_errors=True)


def compare_unpacked(exp, ud):
    import stat as st_
    bad = []
    for p, n in exp.items():
        full = os.path.join(os.fsencode(ud), p) if p else os.fsencode(ud)
        try:
            s = os.lstat(full)
        except OSError:
            if n["type"] == "sock":
                continue
            bad.append("%r: missing after unpack" % p)
            continue
        t = ("dir" if st_.S_ISDIR(s.st_mode) else "file" if st_.S_ISREG(s.st_mode) else "slink" if st_.S_ISLNK(s.st_mode) else
             "chr" if st_.S_ISCHR(s.st_mode) else "blk" if st_.S_ISBLK(s.st_mode) else "fifo" if st_.S_ISFIFO(s.st_mode) else "sock")
        if t != n["type"]:
            bad.append("%r: type %s unpacked as %s" % (p, n["type"], t))
            continue
        if p and t != "slink" and st_.S_IMODE(s.st_mode) != n["mode"]:
            bad.append("%r: mode %o unpacked as %o" % (p, n["mode"], st_.S_IMODE(s.st_mode)))
        if p and (s.st_uid, s.st_gid) != (n["uid"], n["gid"]):
            bad.append("%r: owner %s unpacked as %s" % (p, (n["uid"], n["gid"]), (s.st_uid, s.st_gid)))
        if t == "file":
            if sha_file(full) != n["sha"]:
                bad.append("%r: content differs after unpack" % p)
        if t == "slink" and os.readlink(full) != n["target"]:
            bad.append("%r: target differs after unpack" % p)
    return bad


def main():
    global SCR
    cr = CheckRun("C01", "exploration", default_budget=(420, 3000))
    with build.Scratch("C01") as sd:
        SCR = sd
        tools = build.build_tools(build.variant("asan"), os.path.join(sd, "bin"), tools=["gensquashfs", "rdsquashfs"])
        packcheck.TOOLS.update(tools)
        if cr.replay and os.path.exists(os.path.join(cr.replay, "case.json")) and json.load(open(os.path.join(cr.replay, "case.json"))).get("kind") == "huge":
            c = json.load(open(os.path.join(cr.replay, "case.json")))
            print(evaluate_huge(c))
            return 1
        if cr.replay:
            argv = json.load(open(os.path.join(cr.replay, "argv.json")))
            case_dir = os.path.join(cr.replay, "case")
            wd = tempfile.mkdtemp(dir=sd)
            argv = [a.replace(os.path.dirname(argv[-1]), case_dir) if i not in (0, len(argv) - 1) else a for i, a in enumerate(argv)]
            argv[0] = tools["gensquashfs"]
            argv[-1] = os.path.join(wd, "out.sqfs")
            r = run_tool(argv, timeout=60)
            print("rc", r.rc, r.err.decode("latin1")[-3000:])
            if os.path.exists(argv[-1]):
                im, err = packcheck.decode(argv[-1])
                print(err or "\n".join("%r %s" % (p, {k: v for k, v in n.items() if k in ("type", "mode", "uid", "gid", "nlink", "target")}) for p, n in sorted(im.tree.items())))
            return 1
        quick = cr.quick
        cases = []
        k = 2 if quick else 3
        cfgs = packcases.CFG_QUICK if quick else packcases.CFG_THOROUGH
        for i, c in enumerate(packcases.tree_cases(k, cfgs)):
            c["readers"] = (c["cfg"] is cfgs[0]) and (quick or len(c["names"]) <= 2)
            c["kernel"] = (len(c["names"]) <= 1) or (i % 97 == 0)
            cases.append(c)
        for c in packcases.tree_cases(1, packcases.CFG_OPTION_QUICK):
            cases.append(c)
        pd_cfgs = [dict(comp="gzip", bs=4096), dict(comp="zstd", bs=4096, keep_time=1)]
        for c in packcases.packdir_cases(1 if quick else 2, pd_cfgs):
            c["readers"] = False
            cases.append(c)
        for c in packcases.sweep_cases(cr.tier):
            c["kernel"] = c["kind"] in ("sweep-alltypes", "sweep-hardlinks")
            cases.append(c)
        if "--only" in cr.rest:
            only = cr.rest[cr.rest.index("--only") + 1].split(",")
            cases = [c for c in cases if c["kind"] in only]
            cr.cap("restricted to kinds %s" % only)
        cr.coverage["planned_cases"] = len(cases)

        seen = set()
        listing_sizes = set()
        n_eval = n_ref = n_kern = 0
        kern_bad = []
        by_kind = {}
        done = 0
        chunk = 2000
        for off in range(0, len(cases), chunk):
            if cr.expired():
                cr.cap("deadline after %d of %d cases" % (off, len(cases)))
                break
            res = pmap(evaluate, cases[off:off + chunk])
            for c, r in zip(cases[off:off + chunk], res):
                done += 1
                if r["status"] == "skipped":
                    cr.note("skipped %s: %s" % (c["kind"], r["why"]))
                    continue
                n_eval += 1
                by_kind[c["kind"]] = by_kind.get(c["kind"], 0) + 1
                if r["status"] == "violation":
                    cr.violation(r["fp"], r["what"], files=r["files"], replay_sh=r.get("replay_sh"))
                    continue
                seen.add(r["sha"])
                if "listing_size" in r:
                    listing_sizes.add(r["listing_size"])
                if r.get("refused"):
                    n_ref += 1
                if "kernel" in r:
                    n_kern += 1
                    if r["kernel"] != "agree":
                        kern_bad.append((c["names"], r["kernel"]))
                if len(cr.coverage["samples"]) < 5 and len(c["names"]) >= 2:
                    cr.sample({"kind": c["kind"], "templates": list(c["names"]), "cfg": c["cfg"], "mode": c["mode"], "image_sha256": r["sha"][:16]})
        # files larger than 4 GiB via holes (thorough; one in quick): sizes around 2^32 x block sizes 128 KiB / 1 MiB
        huge = [dict(size=(1 << 32) + 4097, bs=1 << 20, comp="zstd")] if quick else \
            [dict(size=(1 << 32) + d, bs=bs, comp=comp) for d in (-1, 0, 1, 4097) for bs, comp in ((1 << 20, "zstd"), (131072, "gzip"))]
        huge += [dict(size=(1 << 32) + (1 << 20) + 5, bs=1 << 20, comp="lz4", dense=True)]
        if not quick:
            huge += [dict(size=(1 << 32) + 5, bs=1 << 20, comp="zstd", dense=True), dict(size=(1 << 32) + (1 << 20), bs=1 << 20, comp="lz4", dense=True)]
        if not cr.expired():
            for c, r in zip(huge, pmap(evaluate_huge, huge, procs=4)):
                n_eval += 1
                by_kind["huge-sparse"] = by_kind.get("huge-sparse", 0) + 1
                if r["status"] == "violation":
                    cr.violation(r["fp"], r["what"], files=r["files"], replay_sh=r.get("replay_sh"))
                else:
                    seen.add(r["sha"])
        else:
            cr.cap("deadline before the > 4 GiB cases")
        if not cr.coverage.get("caps_hit"):
            for lo, hi, what in ((65528, 65536, "64 KiB"), (8186, 8192, "8 KiB")):
                missing = [x for x in range(lo, hi + 1) if x not in listing_sizes]
                if missing:
                    cr.cap("listing-size sweep did not produce sizes %s around the %s boundary" % (missing[:6], what))
        cr.coverage["listing_sizes_covered"] = [min(listing_sizes), max(listing_sizes), len(listing_sizes)] if listing_sizes else None
        if kern_bad:
            # the kernel and the independent decoder disagree: my components disagree -> harness problem, not a verdict
            print("HARNESS-ERROR: decoder and kernel disagree: %r" % kern_bad[:3], file=sys.stderr)
            return 2
        cr.coverage.update(evaluations=n_eval, distinct_nontrivial=len(seen), refused_unrepresentable=n_ref,
                           kernel_cross_checks=n_kern, cases_by_kind=by_kind, tree_size_bound=k,
                           templates=len(treegen.templates()),
                           rule="All trees that are unions of <=k entry templates (of %d; names with spaces/quotes/backslashes/high bytes, 255/256/257-byte names, "
                                "sizes 0,1,B-1,B,B+1,2B+k, zero/sparse/duplicate/shared-tail contents, every inode type, hard links, xattrs, owners) x a covering "
                                "set of configurations (compressor, -X, -b, -T, -e, -j/-Q, --defaults, --set-uid/gid, --all-root), as pack file and as real "
                                "directory (-x, -k); plus exhaustive 1-D sweeps (entries per directory, file sizes x content class x compressor, distinct ids, "
                                "distinct xattr sets, hard-link groups, all inode types). A case is distinct/non-trivial when its image sha256 (or refusal reason) "
                                "was not produced by an earlier case. Oracle: decoded tree == documented model; unrepresentable => refused without output; ASan clean; "
                                "rdsquashfs -c/-u agree; kernel mount agrees with the decoder (sample)." % len(treegen.templates()))
        cr.assumptions += ["SQFSCK decoder (cross-checked against the kernel squashfs driver on %d images this run)" % n_kern,
                           "the expected tree encodes gensquashfs.1 (defaults for root/implicit dirs, forced owners apply to all inodes)"]
    return cr.finish()


if __name__ == "__main__":
    main_wrapper(main)
