"""Bounded-exhaustive tar archive families for C04 / C03 / C07 / C15."""
import itertools
from vlib import tarmk
from vlib.treegen import content_pattern

B = 4096


def E(path, type, **kw):
    d = dict(path=path, type=type, mode=kw.pop("mode", 0o755 if type == "dir" else 0o644), uid=kw.pop("uid", 0), gid=kw.pop("gid", 0), mtime=kw.pop("mtime", 1500000000))
    d.update(kw)
    return d


def name_of_len(n, depth_every=60):
    """path of exactly n bytes with '/' separators so that ustar prefix splitting is possible"""
    out = bytearray()
    i = 0
    while len(out) < n:
        if len(out) % depth_every == depth_every - 1 and len(out) < n - 1:
            out += b"/"
        else:
            out += b"abcdefghij"[i % 10:i % 10 + 1]
            i += 1
    return bytes(out[:n])


def single_entry_cases(tier):
    """(label, entries, dialect) — one entry per archive x field encodings"""
    quick = tier == "quick"
    out = []
    lens = [1, 99, 100, 101, 155, 156, 157, 255, 256] if quick else [1, 2, 98, 99, 100, 101, 102, 154, 155, 156, 157, 158, 254, 255, 256, 257, 300]
    # extension payloads (GNU long name with / without its NUL, PAX path record) that fill whole 512-byte records exactly, and their neighbours
    lens += [502, 511, 512] if quick else [500, 501, 502, 503, 504, 510, 511, 512, 513, 1013, 1014, 1023, 1024]
    for n in lens:
        p = name_of_len(n)
        for dialect in ("ustar", "gnu", "pax"):
            try:
                tarmk.encode_entry(E(p, "file", content=b"x"), dialect=dialect)
            except ValueError:
                continue
            out.append(("name-len-%d/%s" % (n, dialect), [E(p, "file", content=b"n%d" % n)], dialect))
        if n <= 100:
            out.append(("name-len-%d/v7" % n, [E(p, "file", content=b"n%d" % n)], "v7"))
    # POSIX ustar prefix/name split: every boundary of the 155-byte prefix field and of the 100-byte name field.
    # a 100-byte last component forces the split right in front of it, so the prefix length is exactly p
    for p_ in ([1, 50, 99, 100, 101, 102, 128, 154, 155] if quick else list(range(1, 156, 7)) + [98, 99, 100, 101, 102, 153, 154, 155]):
        for m_ in (100, 1) if p_ > 99 else (100,):
            pre = name_of_len(p_, 50) if p_ > 2 else b"p" * p_
            if pre.endswith(b"/") or pre.startswith(b"/") or b"//" in pre:
                pre = pre.replace(b"/", b"_")
            if m_ == 1:
                pre = pre.replace(b"/", b"_")        # a single '/' in the whole path: the only possible split
            path = pre + b"/" + b"n" * m_
            sp = tarmk.split_ustar(path)
            if sp is None or len(sp[1]) != p_:
                continue
            out.append(("name-ustar-prefix-%d-name-%d/ustar" % (p_, m_), [E(path, "file", content=b"pfx%d" % p_)], "ustar"))
    for n in lens:
        tg = name_of_len(n, 40)
        for dialect in ("gnu", "pax") + (("ustar",) if n <= 100 else ()):
            out.append(("target-len-%d/%s" % (n, dialect), [E(b"sl", "slink", target=tg)], dialect))
            out.append(("hardlink-target-len-%d/%s" % (n, dialect), [E(tg, "file", content=b"t"), E(b"zhl", "link", target=tg)], dialect))
    for s in ([0, 1, 511, 512, 513, B - 1, B, B + 1] if quick else [0, 1, 2, 510, 511, 512, 513, 514, 1023, 1024, 1025, B - 1, B, B + 1, 2 * B, 3 * B + 7]):
        for dialect in ("v7", "ustar", "gnu", "pax"):
            out.append(("size-%d/%s" % (s, dialect), [E(b"f", "file", content=content_pattern("sz%d" % s, s))], dialect))
    # (1 << 32) - 1 is (uid_t)-1, which chown() treats as 'leave unchanged': not used
    vals = [0, 1, 0o7777777, 0o7777777 + 1, (1 << 32) - 2] if quick else [0, 1, 0o7777776, 0o7777777, 0o7777777 + 1, 1 << 21, (1 << 31) - 1, 1 << 31, (1 << 32) - 3, (1 << 32) - 2]
    for v in vals:
        out.append(("uid-%d/gnu-base256" % v, [E(b"f", "file", content=b"u", uid=v, gid=v // 2, style="base256")], "gnu"))
        out.append(("uid-%d/pax" % v, [E(b"f", "file", content=b"u", uid=v, gid=v // 2, pax_ids=True)], "pax"))
        if v <= 0o7777777:
            out.append(("uid-%d/ustar" % v, [E(b"f", "file", content=b"u", uid=v, gid=v // 2)], "ustar"))
    mt = [0, 1, 8 ** 11 - 1, 8 ** 11, (1 << 32) - 1, 1 << 32, (1 << 33) - 1, 1 << 33, -1, -(1 << 31)] if quick else \
        [0, 1, 8 ** 11 - 2, 8 ** 11 - 1, 8 ** 11, (1 << 31) - 1, 1 << 31, (1 << 32) - 2, (1 << 32) - 1, 1 << 32, (1 << 32) + 1, (1 << 33) - 1, 1 << 33, (1 << 62), -1, -2, -(1 << 31), -(1 << 40)]
    for v in mt:
        out.append(("mtime-%d/gnu-base256" % v, [E(b"f", "file", content=b"m", mtime=v, style="base256")], "gnu"))
        out.append(("mtime-%d/pax" % v, [E(b"f", "file", content=b"m", mtime=v, pax_mtime=b"%d" % v)], "pax"))
        if 0 <= v < 8 ** 11:
            out.append(("mtime-%d/ustar" % v, [E(b"f", "file", content=b"m", mtime=v)], "ustar"))
    # out-of-range time stamps on the paths that do not create the node: a directory listed after its contents (implicitly created before), the archive's root entry
    for v in ((-86400, (1 << 32), (1 << 33) + 1234) if quick else (-1, -86400, -(1 << 40), (1 << 32) - 1, 1 << 32, (1 << 32) + 1, (1 << 33) + 1234, 1 << 62)):
        for how, kw in (("gnu-base256", dict(style="base256")), ("pax", dict(pax_mtime=b"%d" % v))):
            dialect = "gnu" if how.startswith("gnu") else "pax"
            out.append(("mtime-%d-dir-after-child/%s" % (v, how), [E(b"d/f", "file", content=b"c"), E(b"d", "dir", mode=0o711, mtime=v, **kw)], dialect))
            out.append(("mtime-%d-root-entry/%s" % (v, how), [E(b"./", "dir", mode=0o700, mtime=v, **kw), E(b"./f", "file", content=b"r")], dialect))
            out.append(("mtime-%d-nested-dir-after/%s" % (v, how), [E(b"a/b/c", "slink", target=b"x"), E(b"a/b", "dir", mtime=v, **kw), E(b"a", "dir", mtime=v, **kw)], dialect))
    out.append(("mtime-fractional/pax", [E(b"f", "file", content=b"m", mtime=1234, pax_mtime=b"1234.56789")], "pax"))
    for maj, mi in ([(0, 0), (5, 1), (255, 255), (4095, 1048575)] if quick else [(0, 0), (1, 3), (5, 1), (255, 255), (256, 256), (4095, 255), (4095, 1048575), (8, 65536)]):
        for kind in ("chr", "blk"):
            for dialect in ("ustar", "gnu", "pax"):
                if dialect == "ustar" and (maj >= 8 ** 7 or mi >= 8 ** 7):
                    continue
                out.append(("dev-%d-%d/%s/%s" % (maj, mi, kind, dialect), [E(b"dev", kind, mode=0o600, dev=(maj, mi))], dialect))
    for kind in ("dir", "fifo"):
        for dialect in ("ustar", "gnu", "pax") + (("v7",) if kind == "dir" else ()):
            out.append(("%s/%s" % (kind, dialect), [E(b"e", kind, mode=0o1755 if kind == "dir" else 0o600, uid=7, gid=8)], dialect))
    out.append(("dir-without-slash/ustar", [E(b"e", "dir", mode=0o700, dir_slash=False)], "ustar"))
    out.append(("v7-nul-typeflag", [E(b"f", "file", content=b"v7", v7_nul_type=True)], "v7"))
    return out


def sparse_cases(tier):
    quick = tier == "quick"
    out = []
    chunks = [content_pattern("c%d" % i, 512) for i in range(4)]
    for fmt, dialect in (("old", "gnu"), ("0.0", "pax"), ("0.1", "pax"), ("1.0", "pax")):
        for mask in range(16):
            content = b"".join(bytes(512) if mask & (1 << i) else chunks[i] for i in range(4))
            holes = [(i * 512, 512) for i in range(4) if mask & (1 << i)]
            # merge adjacent holes
            merged = []
            for o, l in holes:
                if merged and merged[-1][0] + merged[-1][1] == o:
                    merged[-1] = (merged[-1][0], merged[-1][1] + l)
                else:
                    merged.append((o, l))
            out.append(("sparse-%s-mask%x" % (fmt, mask), [E(b"sp", "file", content=content, holes=merged, sparse=fmt)], dialect))
        # many regions: the old format needs extension records (>4), the 1.0 map crosses its 512-byte record
        # region counts at which the decimal text map of format 1.0 crosses a 512-byte record (1, 2 and 3 records)
        def maplen(n):
            return len(b"%d\n" % n + b"".join(b"%d\n%d\n" % (i * 512, 100) for i in range(n)))
        cross = []
        for lim in (512, 1024):
            n = next(k for k in range(1, 400) if maplen(k) > lim)
            cross += [n - 1, n] if (lim == 512 or not quick) else [n]
        for nreg in sorted(set(((3, 4, 5, 24, 25, 26) if quick else (2, 3, 4, 5, 6, 7, 23, 24, 25, 26, 27, 28, 44, 45, 46, 47, 48, 70)) + tuple(cross))):
            content = b"".join((content_pattern("r%d" % i, 100) + bytes(412)) for i in range(nreg))
            holes = [(i * 512 + 100, 412) for i in range(nreg)]
            many = E(b"many", "file", content=content, holes=holes, sparse=fmt)
            out.append(("sparse-%s-%dregions" % (fmt, nreg), [many], dialect))
            # a reader that loses count of the records it consumed goes wrong at the NEXT header: followers without and with payload
            out.append(("sparse-%s-%dregions+followers" % (fmt, nreg),
                        [many, E(b"z1", "slink", target=b"many"), E(b"z2", "file", content=b""), E(b"z3", "dir", mode=0o755), E(b"z4", "file", content=content_pattern("z4", 700))], dialect))
        # unaligned holes, hole at the very start, file that is one big hole
        out.append(("sparse-%s-unaligned" % fmt, [E(b"un", "file", content=b"ab" + bytes(1000) + b"cd" + bytes(7), holes=[(2, 1000), (1004, 7)], sparse=fmt)], dialect))
        out.append(("sparse-%s-all-hole" % fmt, [E(b"hole", "file", content=bytes(5000), holes=[(0, 5000)], sparse=fmt)], dialect))
        out.append(("sparse-%s-blocksize" % fmt, [E(b"blk", "file", content=content_pattern("q", B) + bytes(2 * B) + content_pattern("w", 10), holes=[(B, 2 * B)], sparse=fmt)], dialect))
    return out


def xattr_cases(tier):
    out = []
    vals = {b"user.plain": b"value", b"user.bin": b"\x00\x01\nnew\nline\xff", b"trusted.t": b"1", b"security.selinux": b"system_u:object_r:etc_t:s0", b"user.empty": b""}
    for style in ("schily", "libarchive"):
        out.append(("xattr-%s-all" % style, [tarmk_E(b"x", "file", content=b"x", xattrs=dict(vals), xattr_style=style)], "pax"))
        for k, v in vals.items():
            out.append(("xattr-%s-%s" % (style, k.decode()), [tarmk_E(b"x", "file", content=b"x", xattrs={k: v}, xattr_style=style)], "pax"))
        # xattrs on entries that also need a long-name / long-link extension record (two extension mechanisms in front of one header)
        out.append(("xattr-%s-long-name" % style, [tarmk_E(name_of_len(150, 40), "file", content=b"long", xattrs={b"user.k": b"v"}, xattr_style=style),
                                                    tarmk_E(b"short", "file", content=b"s", xattrs={b"user.k": b"w"}, xattr_style=style)], "pax"))
        out.append(("xattr-%s-long-dir-with-child" % style, [tarmk_E(name_of_len(120, 50), "dir", xattrs={b"user.d": b"1"}, xattr_style=style),
                                                              tarmk_E(name_of_len(120, 50) + b"/c", "file", content=b"c", uid=7, gid=8)], "pax"))
        out.append(("xattr-%s-long-link-target" % style, [tarmk_E(b"sl", "slink", target=name_of_len(200, 30), xattrs={b"user.l": b"2"}, xattr_style=style)], "pax"))
        out.append(("xattr-%s-on-dir-and-link" % style, [tarmk_E(b"d", "dir", xattrs={b"user.d": b"1"}, xattr_style=style),
                                                         tarmk_E(b"d/l", "slink", target=b"t", xattrs={b"user.l": b"2"}, xattr_style=style)], "pax"))
        # PAX record length prefix counts its own digits: value lengths around the points where the record length gains a digit (99/100, 999/1000, 9999/10000)
        for lo, hi in (((60, 82), (955, 985)) if tier == "quick" else ((55, 90), (950, 990), (9950, 9990))):
            vl = list(range(lo, hi))
            for i in range(0, len(vl), 10):
                ents = [tarmk_E(b"x%05d" % n, "file", content=b"x", xattrs={b"user.comment": (b"abcdefghij" * (n // 10 + 1))[:n]}, xattr_style=style) for n in vl[i:i + 10]]
                out.append(("xattr-%s-valuelen-%d..%d" % (style, vl[i], vl[min(i + 9, len(vl) - 1)]), ents, "pax"))
        out.append(("xattr-%s-shared" % style, [tarmk_E(b"a", "file", content=b"a", xattrs={b"user.s": b"S" * 100}, xattr_style=style),
                                                tarmk_E(b"b", "file", content=b"b", xattrs={b"user.s": b"S" * 100}, xattr_style=style)], "pax"))
    return out


def tarmk_E(*a, **kw):
    return E(*a, **kw)


def order_cases(tier):
    out = []
    f = E(b"d/f", "file", content=b"file data")
    h = E(b"d/h", "link", target=b"d/f")
    d = E(b"d", "dir", mode=0o711, uid=9, gid=9)
    for perm in itertools.permutations([d, f, h]):
        for dialect in ("ustar", "gnu", "pax"):
            out.append(("order-%s/%s" % ("".join(e["type"][0] for e in perm), dialect), list(perm), dialect))
    # prefixes
    for pre, label in ((b"./", "dot-slash"), (b"/", "absolute"), (b".//./", "dot-slash-slash")):
        ents = [E(pre, "dir", mode=0o700, uid=5, gid=6)] if label != "absolute" else [E(b"/", "dir", mode=0o700, uid=5, gid=6)]
        ents += [E(pre + b"sub", "dir", mode=0o750), E(pre + b"sub/f", "file", content=b"p"), E(pre + b"sub/l", "link", target=pre + b"sub/f")]
        out.append(("prefix-" + label, ents, "ustar"))
        out.append(("prefix-%s-noroot" % label, ents[1:], "gnu"))
    # implicit parents then explicit
    out.append(("child-before-parent", [E(b"p/q/f", "file", content=b"c"), E(b"p/q", "dir", mode=0o700, uid=3), E(b"p", "dir", mode=0o711, uid=4)], "ustar"))
    # hard-link chains and links to special files
    out.append(("hardlink-chain", [E(b"a", "file", content=b"a"), E(b"b", "link", target=b"a"), E(b"c", "link", target=b"b")], "ustar"))
    out.append(("hardlink-to-fifo-and-symlink", [E(b"p", "fifo", mode=0o600), E(b"hp", "link", target=b"p"), E(b"s", "slink", target=b"p"), E(b"hs", "link", target=b"s")], "gnu"))
    return out


def buffer_boundary_cases(tier):
    """a filler member positions the next entry's extension payload (PAX records, GNU long name, sparse 1.0 map, file data) across the 128 KiB
    boundary of the input stream buffer; followers show whether the reader is still in step afterwards"""
    out = []
    fol = [E(b"~z1", "slink", target=b"~z2"), E(b"~z2", "file", content=content_pattern("fol", 700))]
    longname = name_of_len(700, 60)
    regs = 60
    sp_content = b"".join((content_pattern("r%d" % i, 100) + bytes(412)) for i in range(regs))
    sp_holes = [(i * 512 + 100, 412) for i in range(regs)]
    kinds = [("pax-long-path", E(longname, "file", content=b"long path"), "pax"), ("gnu-long-name", E(longname, "file", content=b"long name"), "gnu"),
             ("gnu-long-link", E(b"sl", "slink", target=longname), "gnu"), ("pax-big-xattr", E(b"x", "file", content=b"x", xattrs={b"user.big": content_pattern("xv", 1500)}), "pax"),
             ("sparse-1.0-two-map-records", E(b"sp", "file", content=sp_content, holes=sp_holes, sparse="1.0"), "pax"),
             ("file-data", E(b"data", "file", content=content_pattern("dd", 3000)), "ustar")]
    for label, ent, dialect in kinds:
        for delta in ((-1024, -512) if tier == "quick" else (-2048, -1536, -1024, -512, 0)):
            # the entry's first header record starts at 131072 + delta
            fsize = 131072 + delta - 512
            ents = [E(b"0filler", "file", content=content_pattern("fill", fsize)), ent] + fol
            out.append(("boundary-%s%+d" % (label, delta), ents, dialect))
    return out


def raw_cases(tier):
    """archives with records that must be skipped: PAX global header, unknown typeflag"""
    out = []
    f = E(b"f", "file", content=b"kept")
    g = tarmk.pax_header([(b"comment", b"global")], name=b"pax_global_header", typeflag=b"g")
    out.append(("pax-global-header", g + tarmk.archive([f], "pax"), [f]))
    unk = tarmk.header(b"volume", typeflag=b"V", magic=b"ustar  \0", size=0)
    out.append(("unknown-typeflag-V", unk + tarmk.archive([f], "gnu"), [f]))
    unk2 = tarmk.header(b"weird", typeflag=b"Z", size=600) + bytes(1024)
    out.append(("unknown-typeflag-with-data", unk2 + tarmk.archive([f], "ustar"), [f]))
    return out


def all_model_cases(tier):
    """list of (label, archive bytes, entries (for the model))"""
    out = []
    for label, ents, dialect in single_entry_cases(tier) + sparse_cases(tier) + xattr_cases(tier) + order_cases(tier) + buffer_boundary_cases(tier):
        try:
            out.append((label, tarmk.archive(ents, dialect), ents))
        except ValueError:
            continue
        # the same entries followed by two more: a reader that miscounts what an entry (its extension records, its payload, its padding) occupies
        # goes wrong at the NEXT header. Followers without payload (symlink) and with payload (file).
        fam = label.split("-")[0]
        if "+followers" in label or fam == "boundary" or (tier == "quick" and fam not in ("name", "target", "hardlink", "size", "sparse", "xattr")):
            continue
        if tier == "quick" and fam == "sparse" and "regions" not in label and "mask5" not in label and "mask a" not in label:
            continue
        fol = [E(b"~z1", "slink", target=b"~z2"), E(b"~z2", "file", content=content_pattern("fol", 700))]
        try:
            out.append((label + "+2", tarmk.archive(ents + fol, dialect), ents + fol))
        except ValueError:
            continue
    out += raw_cases(tier)
    return out


def c03_cases(tier):
    """tar inputs for the C03 validator (image produced by tar2sqfs)"""
    cases = all_model_cases(tier)
    step = 3 if tier == "quick" else 1
    for i, (label, data, ents) in enumerate(cases):
        if i % step:
            continue
        yield dict(kind="tar", names=(label,), spec=None, cfg=dict(comp=("gzip", "lz4", "zstd", "xz")[i % 4], bs=4096), mode="tar", tar=data)
