"""GEN — bounded-exhaustive tree specifications for gensquashfs and their renderings.

A *spec* is a list of entry dicts:
  {path: bytes (no leading slash), type: dir|file|slink|chr|blk|fifo|sock|link,
   mode, uid, gid, mtime (pack-dir only), content: bytes, target: bytes, dev: (maj, min), xattrs: {key: value}}
expected_tree(spec, opts) gives the tree the documentation promises.
"""
import os, itertools, hashlib, struct, stat

B_DEFAULT = 4096


def content_pattern(tag, n):
    """deterministic, incompressible-ish bytes of length n depending on tag"""
    out = bytearray()
    i = 0
    seed = hashlib.sha256(tag.encode()).digest()
    while len(out) < n:
        out += hashlib.sha256(seed + struct.pack("<I", i)).digest()
        i += 1
    return bytes(out[:n])


def E(path, type, mode=0o644, uid=0, gid=0, **kw):
    d = dict(path=path, type=type, mode=mode, uid=uid, gid=gid)
    d.update(kw)
    return d


def templates(B=B_DEFAULT):
    """entry-template alphabet, ordered simplest-first. Each template is (name, [entries])."""
    big = content_pattern("big", 2 * B + 77)
    T = []
    T.append(("dir", [E(b"d", "dir", 0o755)]))
    T.append(("file-1B", [E(b"f1", "file", content=b"x")]))
    T.append(("file-empty", [E(b"f0", "file", content=b"")]))
    T.append(("slink", [E(b"sl", "slink", 0o777, target=b"f1")]))
    T.append(("dir-nested-implicit-parent", [E(b"p/q", "dir", 0o700, 7, 8)]))
    T.append(("file-B-1", [E(b"fBm", "file", 0o600, content=content_pattern("bm", B - 1))]))
    T.append(("file-B", [E(b"fB", "file", content=content_pattern("b", B))]))
    T.append(("file-B+1", [E(b"fBp", "file", content=content_pattern("bp", B + 1))]))
    T.append(("file-2B+k", [E(b"big", "file", 0o755, 1000, 100, content=big)]))
    T.append(("file-zero-2B", [E(b"zz", "file", content=bytes(2 * B))]))
    T.append(("file-zero-data-zero", [E(b"zdz", "file", content=bytes(B) + content_pattern("mid", B) + bytes(B) + b"tail")]))
    T.append(("file-duplicate", [E(b"dup", "file", 0o444, content=big)]))
    T.append(("file-shared-tail", [E(b"sht", "file", content=content_pattern("other", B) + big[2 * B:])]))
    T.append(("slink-long-target", [E(b"sll", "slink", 0o777, target=b"t/" * 2000 + b"x")]))
    T.append(("chr", [E(b"cdev", "chr", 0o600, dev=(5, 1))]))
    T.append(("blk-large-devno", [E(b"bdev", "blk", 0o660, 0, 6, dev=(4095, 1048575))]))
    T.append(("fifo", [E(b"pipe", "fifo", 0o622)]))
    T.append(("sock", [E(b"sock", "sock", 0o777)]))
    T.append(("hardlink-to-file", [E(b"hl", "link", target=b"f1"), E(b"f1", "file", content=b"x")]))
    T.append(("hardlink-to-fifo", [E(b"zhl", "link", target=b"pipe"), E(b"pipe", "fifo", 0o622)]))
    T.append(("name-space-quote", [E(b"a b/q\"x", "file", content=b"quoted")]))
    T.append(("name-backslash-highbytes", [E(b"b\\s", "dir", 0o711), E(b"b\\s/\xff\xfe", "file", content=b"hb")]))
    # a directory whose name starts with a byte >= 0x80 (UTF-8), looked up again for each child, next to ASCII and other high-byte siblings
    T.append(("dir-highbyte-with-children", [E(b"\xc3\xa9t\xc3\xa9/x", "file", content=b"x in ete"), E(b"\xc3\xa9t\xc3\xa9/y", "file", content=b"y in ete"),
                                             E(b"\xc3\xa9a", "file", content=b"ea"), E(b"a.txt", "file", content=b"ascii sibling"), E(b"\x80", "dir", 0o750),
                                             E(b"\x80/z", "slink", 0o777, target=b"../a.txt")]))
    T.append(("name-255", [E(b"n" * 255, "file", content=b"255")]))
    T.append(("name-256", [E(b"m" * 256, "file", content=b"256")]))
    T.append(("name-257-unrepresentable", [E(b"w" * 257, "file", content=b"257")]))
    T.append(("owner-max", [E(b"own", "file", 0o4755, 4294967294, 65534, content=b"o")]))
    T.append(("xattr", [E(b"xa", "file", content=b"xa", xattrs={b"user.k": b"v", b"security.s": b"\x00\x01bin"})]))
    T.append(("xattr-shared-long-value", [E(b"xb", "file", content=b"xb", xattrs={b"user.long": b"L" * 300}),
                                          E(b"xc", "dir", 0o755, xattrs={b"user.long": b"L" * 300, b"trusted.t": b"1"})]))
    return T


def merge(entry_lists):
    """union of templates; identical paths must be identical entries (else the first wins)"""
    out, seen = [], {}
    for lst in entry_lists:
        for e in lst:
            if e["path"] in seen:
                continue
            seen[e["path"]] = e
            out.append(e)
    return out


def trees(k, B=B_DEFAULT, tmpl=None):
    """all trees of <= k templates (as (names, spec))"""
    T = tmpl or templates(B)
    for r in range(0, k + 1):
        for combo in itertools.combinations(range(len(T)), r):
            yield tuple(T[i][0] for i in combo), merge([T[i][1] for i in combo])


# ---------------------------------------------------------------------------- renderings
def q(tok):
    """quote a pack-file token"""
    return b'"' + tok.replace(b"\\", b"\\\\").replace(b'"', b'\\"') + b'"'


def render_packfile(spec, workdir, order=None):
    """writes input files into workdir/in/ and returns pack file bytes. Locations are relative to workdir/in"""
    os.makedirs(os.path.join(workdir, "in"), exist_ok=True)
    lines = []
    n = 0
    for e in (order or spec):
        p = q(b"/" + e["path"])
        hdr = b" %o %d %d" % (e["mode"], e["uid"], e["gid"])
        t = e["type"]
        if t == "dir":
            lines.append(b"dir " + p + hdr)
        elif t == "file":
            loc = b"f%d" % n
            n += 1
            with open(os.path.join(os.fsencode(workdir), b"in", loc), "wb") as f:
                f.write(e["content"])
            lines.append(b"file " + p + hdr + b" " + loc)
        elif t == "slink":
            lines.append(b"slink " + p + hdr + b" " + q(e["target"]))
        elif t == "link":
            lines.append(b"link " + p + b" 0 0 0 " + q(b"/" + e["target"]))
        elif t in ("chr", "blk"):
            lines.append(b"nod " + p + hdr + b" %s %d %d" % (b"c" if t == "chr" else b"b", e["dev"][0], e["dev"][1]))
        elif t == "fifo":
            lines.append(b"pipe " + p + hdr)
        elif t == "sock":
            lines.append(b"sock " + p + hdr)
    return b"\n".join(lines) + b"\n"


def xattr_escape(v):
    return b"0x" + v.hex().encode()


def render_xattr_file(spec):
    out = []
    for e in spec:
        if e.get("xattrs"):
            out.append(b"# file: " + e["path"])
            for k in sorted(e["xattrs"]):
                out.append(k + b"=" + xattr_escape(e["xattrs"][k]))
            out.append(b"")
    return b"\n".join(out) + b"\n" if out else None


def render_dir(spec, root):
    """materialise the spec as a real directory tree (needs root for mknod/chown). Returns set of paths it could not create."""
    import socket
    rootb = os.fsencode(root)
    os.makedirs(rootb, exist_ok=True)
    skipped = []
    later = []

    def mk_parents(p):
        d = os.path.dirname(p)
        if d and not os.path.isdir(d):
            os.makedirs(d, mode=0o755, exist_ok=True)

    for e in sorted(spec, key=lambda e: (e["type"] == "link", e["path"].count(b"/"), e["path"])):
        full = os.path.join(rootb, e["path"])
        t = e["type"]
        try:
            mk_parents(full)
            if t == "dir":
                if not os.path.isdir(full):
                    os.mkdir(full)
            elif t == "file":
                with open(full, "wb") as f:
                    f.write(e["content"])
            elif t == "slink":
                os.symlink(e["target"], full)
            elif t == "link":
                os.link(os.path.join(rootb, e["target"]), full)
                continue
            elif t in ("chr", "blk"):
                os.mknod(full, (stat.S_IFCHR if t == "chr" else stat.S_IFBLK) | e["mode"], os.makedev(*e["dev"]))
            elif t == "fifo":
                os.mkfifo(full)
            elif t == "sock":
                s = socket.socket(socket.AF_UNIX)
                cwd = os.getcwd()
                try:
                    os.chdir(os.path.dirname(full))
                    s.bind(os.path.basename(full))
                finally:
                    os.chdir(cwd)
                    s.close()
            for k, v in (e.get("xattrs") or {}).items():
                os.setxattr(full, k, v, follow_symlinks=False)
            later.append((full, e))
        except OSError as ex:
            skipped.append((e["path"], str(ex)))
    # owner / mode / mtime after creation (deepest first so directory mtimes stick)
    for full, e in sorted(later, key=lambda x: -x[0].count(b"/")):
        try:
            os.chown(full, e["uid"], e["gid"], follow_symlinks=False)
            if e["type"] != "slink":
                os.chmod(full, e["mode"])
            mt = e.get("mtime", 1000000000 + (len(e["path"]) * 7919) % 100000)
            os.utime(full, (mt, mt), follow_symlinks=False)
        except OSError as ex:
            skipped.append((e["path"], str(ex)))
    return skipped


def dir_mtime(e):
    return e.get("mtime", 1000000000 + (len(e["path"]) * 7919) % 100000)


# ---------------------------------------------------------------------------- the model
def representable(spec):
    """None if the format can hold the spec, else the reason (from format.adoc)"""
    ids = set()
    for e in spec:
        for comp in e["path"].split(b"/"):
            if len(comp) > 256:
                return "name longer than 256 bytes"
        if e["type"] != "link":
            ids.add(e["uid"])
            ids.add(e["gid"])
    ids.add(0)
    if len(ids) > 65535:
        return "more than 65535 distinct ids (id_count is 16 bit)"
    return None


def expected_tree(spec, mode="packfile", defaults=None, force_uid=None, force_gid=None, keep_time=False,
                  with_xattrs=True, implicit_parent_mtime=None):
    """path -> comparable dict (like sqfsck.canon_tree without layout).
    defaults: dict(uid,gid,mode,mtime) for implicit directories and the root."""
    d = dict(uid=0, gid=0, mode=0o755, mtime=0)
    if defaults:
        d.update(defaults)
    out = {}

    def fu(u):
        return force_uid if force_uid is not None else u

    def fg(g):
        return force_gid if force_gid is not None else g

    # the man page: --set-uid/--set-gid force the owner of ALL inodes
    out[b""] = dict(type="dir", mode=d["mode"], uid=fu(d["uid"]), gid=fg(d["gid"]), mtime=d["mtime"], xattrs={})
    by_path = {e["path"]: e for e in spec}
    for e in spec:
        parts = e["path"].split(b"/")
        for i in range(1, len(parts)):
            pp = b"/".join(parts[:i])
            if pp not in by_path and pp not in out:
                if mode == "packdir":
                    # real directories created by makedirs: mode 0755 root:root, not in the spec -> attributes unknown
                    out[pp] = dict(type="dir", mode=0o755, uid=fu(0), gid=fg(0), mtime=None, xattrs={})
                else:
                    out[pp] = dict(type="dir", mode=d["mode"], uid=fu(d["uid"]), gid=fg(d["gid"]), mtime=d["mtime"], xattrs={})
    links = {}
    for e in spec:
        t = e["type"]
        if t == "link":
            links[e["path"]] = e["target"]
            continue
        n = dict(type=t, mode=e["mode"], uid=fu(e["uid"]), gid=fg(e["gid"]), xattrs=dict(e.get("xattrs") or {}) if with_xattrs else {})
        n["mtime"] = dir_mtime(e) if (mode == "packdir" and keep_time) else d["mtime"]
        if t == "file":
            n["size"] = len(e["content"])
            n["sha"] = hashlib.sha256(e["content"]).hexdigest()
        elif t == "slink":
            n["target"] = e["target"]
            n["mode"] = 0o777
        elif t in ("chr", "blk"):
            maj, mi = e["dev"]
            n["rdev"] = (maj << 8) | (mi & 0xFF) | ((mi & 0xFFF00) << 12)
        out[e["path"]] = n
    # hard links: same node as the target
    groups = {}
    for lp, tgt in links.items():
        t = tgt
        seen = set()
        while t in links and t not in seen:
            seen.add(t)
            t = links[t]
        if t in out and out[t]["type"] != "dir":
            out[lp] = out[t]
            groups.setdefault(t, {t}).add(lp)
    for t, g in groups.items():
        out[t]["links"] = tuple(sorted(g))
    return out


def diff_trees(exp, got, ignore=()):
    """exp from expected_tree, got from sqfsck.canon_tree. mtime None in exp = unknown."""
    diffs = []
    if set(exp) != set(got):
        diffs.append("paths: missing %r unexpected %r" % (sorted(set(exp) - set(got))[:4], sorted(set(got) - set(exp))[:4]))
    for p in exp:
        if p not in got:
            continue
        a, b = exp[p], got[p]
        for k in ("type", "mode", "uid", "gid", "mtime", "size", "sha", "target", "rdev", "links", "xattrs"):
            if k in ignore:
                continue
            if k == "mtime" and a.get(k) is None:
                continue
            if a.get(k) != b.get(k) and not (k in ("links",) and not a.get(k) and not b.get(k)):
                diffs.append("%r: %s expected %r got %r" % (p, k, _short(a.get(k)), _short(b.get(k))))
    return diffs


def _short(v):
    s = repr(v)
    return s if len(s) < 120 else s[:117] + "..."
