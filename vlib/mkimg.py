"""MKIMG — independent SquashFS image writer (uncompressed metadata and data) with a field map.
Written from doc/format.adoc; shares no code with libsquashfs. Used for hostile-image families (C05, C06, C10).

build(root, ...) -> (image bytes, fields) where fields: name -> (file offset, width)
Directory listings are written exactly as given (any byte string as name, any order, duplicates, type overrides).
"""
import struct

META = 8192
TYPE_ID = {"dir": 1, "file": 2, "slink": 3, "blk": 4, "chr": 5, "fifo": 6, "sock": 7}


class Node:
    def __init__(self, kind, mode=0o644, uid=0, gid=0, mtime=0, ext=False, xattrs=None, data=b"", frag=True, target=b"", rdev=0,
                 nlink=None, entries=None, tag=None, index_every=None):
        self.kind, self.mode, self.uid, self.gid, self.mtime, self.ext = kind, mode, uid, gid, mtime, ext or bool(xattrs)
        self.xattrs = xattrs
        self.data, self.frag, self.target, self.rdev = data, frag, target, rdev
        self.nlink = nlink
        self.entries = entries if entries is not None else []   # list of (name bytes, Node, type override or None)
        self.tag = tag
        self.index_every = index_every     # extended directories: a new header every k entries and an index entry per header after the first
        self.ino = None
        self.ref = None
        self.parent_ino = 0


def D(entries=None, mode=0o755, **kw):
    return Node("dir", mode=mode, entries=entries or [], **kw)


def F(data=b"", **kw):
    return Node("file", data=data, **kw)


def L(target, **kw):
    return Node("slink", mode=0o777, target=target, **kw)


class _Stream:
    """metadata stream chopped into uncompressed 8 KiB blocks"""

    def __init__(self):
        self.buf = bytearray()

    def tell(self):
        return len(self.buf)

    def ref(self, pos=None):
        pos = self.tell() if pos is None else pos
        return ((pos // META) * (META + 2)) << 16 | (pos % META)

    def blockpos(self, pos):
        return (pos // META) * (META + 2), pos % META

    def emit(self):
        out = bytearray()
        for i in range(0, len(self.buf), META):
            chunk = self.buf[i:i + META]
            out += struct.pack("<H", len(chunk) | 0x8000) + chunk
        return bytes(out)

    def file_offset(self, table_start, pos):
        return table_start + (pos // META) * (META + 2) + 2 + pos % META


def build(root, block_size=4096, export=False, mtime=0, comp_id=1, pad=4096, flags=None, nofrag_table=False):
    fields = {}
    bs = block_size
    # ---- collect nodes (DFS), assign inode numbers; a Node object may be reachable twice (hard link / loop)
    nodes = []
    seen = set()

    def visit(n, parent):
        if id(n) in seen:
            return
        seen.add(id(n))
        if n.kind == "dir":
            for name, c, t in n.entries:
                visit(c, n)
        nodes.append(n)
    visit(root, None)
    for i, n in enumerate(nodes):
        n.ino = i + 1
    for n in nodes:
        if n.kind == "dir":
            for name, c, t in n.entries:
                if c.kind == "dir" and c.parent_ino == 0 and c is not root:
                    c.parent_ino = n.ino
    # ---- ids
    ids = []
    for n in nodes:
        for v in (n.uid, n.gid):
            if v not in ids:
                ids.append(v)
    # ---- xattrs (all inline, one kv block per distinct set)
    xsets = []
    xkv = _Stream()
    xdesc = []
    for n in nodes:
        n.xidx = 0xFFFFFFFF
        if n.xattrs:
            key = tuple(sorted(n.xattrs.items()))
            if key not in xsets:
                xsets.append(key)
                start = xkv.tell()
                for k, v in key:
                    for pid, pre in ((0, b"user."), (1, b"trusted."), (2, b"security.")):
                        if k.startswith(pre):
                            xkv.buf += struct.pack("<HH", pid, len(k) - len(pre)) + k[len(pre):] + struct.pack("<I", len(v)) + v
                            break
                xdesc.append((xkv.ref(start), len(key), xkv.tell() - start))
            n.xidx = xsets.index(key)
    # ---- data area
    img = bytearray(96)
    frag_buf = bytearray()
    frag_blocks = []      # (start, size word)
    pending_frag = []     # nodes whose tail sits in the current fragment buffer

    def flush_frag():
        nonlocal frag_buf
        if frag_buf:
            frag_blocks.append((len(img), len(frag_buf) | (1 << 24)))
            img.extend(frag_buf)
            frag_buf = bytearray()
    for n in nodes:
        if n.kind != "file":
            continue
        d = n.data
        n.blocks_start = len(img)
        n.block_sizes = []
        full = len(d) // bs
        tail = len(d) % bs
        for i in range(full):
            chunk = d[i * bs:(i + 1) * bs]
            if not any(chunk):
                n.block_sizes.append(0)
            else:
                n.block_sizes.append(len(chunk) | (1 << 24))
                img.extend(chunk)
        n.frag_idx, n.frag_off = 0xFFFFFFFF, 0
        if tail:
            if n.frag:
                if len(frag_buf) + tail > bs:
                    flush_frag()
                n.frag_idx, n.frag_off = len(frag_blocks), len(frag_buf)
                frag_buf += d[full * bs:]
            else:
                n.block_sizes.append(tail | (1 << 24))
                img.extend(d[full * bs:])
    flush_frag()
    # ---- inode table layout (sizes are fixed per node)
    def inode_size(n):
        base = 16
        if n.kind == "dir":
            extra = 0
            if n.ext and n.index_every:
                for k in range(n.index_every, len(n.entries), n.index_every):
                    extra += 12 + len(n.entries[k][0])
            return base + (24 if n.ext else 16) + extra
        if n.kind == "file":
            return base + (40 if n.ext else 16) + 4 * len(n.block_sizes)
        if n.kind == "slink":
            return base + 8 + len(n.target) + (4 if n.ext else 0)
        if n.kind in ("chr", "blk"):
            return base + 8 + (4 if n.ext else 0)
        return base + 4 + (4 if n.ext else 0)
    pos = 0
    for n in nodes:
        n.ipos = pos
        pos += inode_size(n)
    it = _Stream()
    for n in nodes:
        n.ref = it.ref(n.ipos)
    # ---- directory table
    dt = _Stream()
    for n in nodes:
        if n.kind != "dir":
            continue
        n.dstart = dt.tell()
        n.dref = dt.ref()
        ents = n.entries
        i = 0
        n.headers = []
        while i < len(ents):
            first = ents[i][1]
            run = []
            while i < len(ents) and len(run) < (n.index_every if (n.ext and n.index_every) else 256):
                name, c, t = ents[i]
                if (c.ref >> 16) != (first.ref >> 16) or abs(c.ino - first.ino) > 32767:
                    break
                run.append(ents[i])
                i += 1
            hpos = dt.tell()
            n.headers.append(hpos)
            dt.buf += struct.pack("<III", len(run) - 1, first.ref >> 16, first.ino)
            for k, (name, c, t) in enumerate(run):
                epos = dt.tell()
                tid = t if t is not None else TYPE_ID[c.kind]
                dt.buf += struct.pack("<HhHH", c.ref & 0xFFFF, c.ino - first.ino, tid, len(name) - 1) + name
                lst = getattr(n, "_ek", [])
                lst.append((epos, len(name)))
                n._ek = lst
        n.dsize = dt.tell() - n.dstart + 3
    # ---- inodes
    def idx(v):
        return ids.index(v)
    for n in nodes:
        assert it.tell() == n.ipos
        ext = n.ext
        tid = TYPE_ID[n.kind] + (7 if ext else 0)
        it.buf += struct.pack("<HHHHII", tid, n.mode & 0xFFFF, idx(n.uid), idx(n.gid), n.mtime, n.ino)
        p = n.ipos + 16
        if n.kind == "dir":
            nl = n.nlink if n.nlink is not None else len(n.entries) + 2
            blk, off = dt.blockpos(n.dstart)
            if not ext:
                it.buf += struct.pack("<IIHHI", blk, nl, n.dsize, off, n.parent_ino if n is not root else len(nodes) + 1)
                n.fmap = {"dir_block": (p, 4), "nlink": (p + 4, 4), "dir_size": (p + 8, 2), "dir_offset": (p + 10, 2), "parent": (p + 12, 4)}
            else:
                idx_ents = []
                if n.index_every:
                    want = list(range(n.index_every, len(n.entries), n.index_every))
                    if len(n.headers) != len(want) + 1:
                        raise ValueError("directory index: headers were split by inode block/number distance, cannot lay out the index")
                    for hpos, k in zip(n.headers[1:], want):
                        idx_ents.append((hpos - n.dstart, dt.blockpos(hpos)[0], n.entries[k][0]))
                it.buf += struct.pack("<IIIIHHI", nl, n.dsize, blk, n.parent_ino if n is not root else len(nodes) + 1, len(idx_ents), off, n.xidx)
                n.fmap = {"nlink": (p, 4), "dir_size": (p + 4, 4), "dir_block": (p + 8, 4), "parent": (p + 12, 4), "index_count": (p + 16, 2),
                          "dir_offset": (p + 18, 2), "xattr_idx": (p + 20, 4)}
                q = p + 24
                for k, (ioff, iblk, iname) in enumerate(idx_ents):
                    it.buf += struct.pack("<III", ioff, iblk, len(iname) - 1) + iname
                    n.fmap.update({"idx%d.index" % k: (q, 4), "idx%d.start" % k: (q + 4, 4), "idx%d.name_size" % k: (q + 8, 4)})
                    q += 12 + len(iname)
        elif n.kind == "file":
            nl = n.nlink if n.nlink is not None else 1
            if not ext:
                it.buf += struct.pack("<IIII", n.blocks_start, n.frag_idx, n.frag_off, len(n.data))
                n.fmap = {"blocks_start": (p, 4), "frag_idx": (p + 4, 4), "frag_off": (p + 8, 4), "file_size": (p + 12, 4)}
                q = p + 16
            else:
                sparse = sum(bs for w in n.block_sizes if w == 0)
                it.buf += struct.pack("<QQQIIII", n.blocks_start, len(n.data), sparse, nl, n.frag_idx, n.frag_off, n.xidx)
                n.fmap = {"blocks_start": (p, 8), "file_size": (p + 8, 8), "sparse": (p + 16, 8), "nlink": (p + 24, 4), "frag_idx": (p + 28, 4),
                          "frag_off": (p + 32, 4), "xattr_idx": (p + 36, 4)}
                q = p + 40
            for k, w in enumerate(n.block_sizes):
                it.buf += struct.pack("<I", w)
                n.fmap["block_size%d" % k] = (q + 4 * k, 4)
        elif n.kind == "slink":
            nl = n.nlink if n.nlink is not None else 1
            it.buf += struct.pack("<II", nl, len(n.target)) + n.target
            n.fmap = {"nlink": (p, 4), "target_size": (p + 4, 4)}
            if ext:
                it.buf += struct.pack("<I", n.xidx)
                n.fmap["xattr_idx"] = (p + 8 + len(n.target), 4)
        elif n.kind in ("chr", "blk"):
            nl = n.nlink if n.nlink is not None else 1
            it.buf += struct.pack("<II", nl, n.rdev)
            n.fmap = {"nlink": (p, 4), "rdev": (p + 4, 4)}
            if ext:
                it.buf += struct.pack("<I", n.xidx)
                n.fmap["xattr_idx"] = (p + 8, 4)
        else:
            nl = n.nlink if n.nlink is not None else 1
            it.buf += struct.pack("<I", nl)
            n.fmap = {"nlink": (p, 4)}
            if ext:
                it.buf += struct.pack("<I", n.xidx)
                n.fmap["xattr_idx"] = (p + 4, 4)
        n.fmap.update({"type": (n.ipos, 2), "mode": (n.ipos + 2, 2), "uid_idx": (n.ipos + 4, 2), "gid_idx": (n.ipos + 6, 2),
                       "mtime": (n.ipos + 8, 4), "inode_number": (n.ipos + 12, 4)})
    # ---- assemble
    inode_table = len(img)
    img.extend(it.emit())
    dir_table = len(img)
    img.extend(dt.emit())

    def write_table(payload, esize):
        """lookup table: metadata blocks then location list; returns position of the list"""
        locs = []
        for i in range(0, len(payload), META):
            locs.append(len(img))
            chunk = payload[i:i + META]
            img.extend(struct.pack("<H", len(chunk) | 0x8000) + chunk)
        p = len(img)
        for l in locs:
            img.extend(struct.pack("<Q", l))
        return p, locs
    frag_table = 0xFFFFFFFFFFFFFFFF
    if frag_blocks and not nofrag_table:
        pl = b"".join(struct.pack("<QII", s, w, 0) for s, w in frag_blocks)
        frag_table, flocs = write_table(pl, 16)
        for i in range(len(frag_blocks)):
            base = flocs[(i * 16) // META] + 2 + (i * 16) % META
            fields["frag%d.start" % i] = (base, 8)
            fields["frag%d.size" % i] = (base + 8, 4)
        for i, l in enumerate(flocs):
            fields["frag_table.loc%d" % i] = (frag_table + 8 * i, 8)
            fields["frag_table.blk%d.hdr" % i] = (l, 2)
    export_table = 0xFFFFFFFFFFFFFFFF
    if export:
        pl = b"".join(struct.pack("<Q", n.ref) for n in nodes)
        export_table, elocs = write_table(pl, 8)
        for i in range(len(nodes)):
            fields["export%d" % i] = (elocs[(i * 8) // META] + 2 + (i * 8) % META, 8)
        fields["export_table.loc0"] = (export_table, 8)
    pl = b"".join(struct.pack("<I", v) for v in ids)
    id_table, ilocs = write_table(pl, 4)
    for i in range(len(ids)):
        fields["id%d" % i] = (ilocs[0] + 2 + 4 * i, 4)
    fields["id_table.loc0"] = (id_table, 8)
    fields["id_table.blk0.hdr"] = (ilocs[0], 2)
    xattr_table = 0xFFFFFFFFFFFFFFFF
    if xdesc:
        kv_start = len(img)
        img.extend(xkv.emit())
        fields["xattr_kv.blk0.hdr"] = (kv_start, 2)
        pl = b"".join(struct.pack("<QII", r, c, s) for r, c, s in xdesc)
        locs = []
        for i in range(0, len(pl), META):
            locs.append(len(img))
            chunk = pl[i:i + META]
            img.extend(struct.pack("<H", len(chunk) | 0x8000) + chunk)
        xattr_table = len(img)
        img.extend(struct.pack("<QII", kv_start, len(xdesc), 0))
        for l in locs:
            img.extend(struct.pack("<Q", l))
        fields["xattr.kv_start"] = (xattr_table, 8)
        fields["xattr.count"] = (xattr_table + 8, 4)
        fields["xattr.loc0"] = (xattr_table + 16, 8)
        for i in range(len(xdesc)):
            base = locs[0] + 2 + 16 * i
            fields["xattr%d.ref" % i] = (base, 8)
            fields["xattr%d.count" % i] = (base + 8, 4)
            fields["xattr%d.size" % i] = (base + 12, 4)
        # first key/value entry
        fields["xattr_kv0.type"] = (kv_start + 2, 2)
        fields["xattr_kv0.name_size"] = (kv_start + 4, 2)
    bytes_used = len(img)
    fl = flags
    if fl is None:
        fl = 0x0001 | 0x0002 | 0x0008 | 0x0100 | 0x0800        # everything uncompressed
        if not frag_blocks:
            fl |= 0x0010
        if export:
            fl |= 0x0080
        if not xdesc:
            fl |= 0x0200
    log = bs.bit_length() - 1
    struct.pack_into("<IIIIIHHHHHHQQQQQQQQ", img, 0, 0x73717368, len(nodes), mtime, bs, len(frag_blocks) if not nofrag_table else 0, comp_id, log, fl, len(ids), 4, 0,
                     root.ref, bytes_used, id_table, xattr_table, inode_table, dir_table, frag_table, export_table)
    sbf = [("magic", 0, 4), ("inode_count", 4, 4), ("mtime", 8, 4), ("block_size", 12, 4), ("frag_count", 16, 4), ("compressor", 20, 2), ("block_log", 22, 2),
           ("flags", 24, 2), ("id_count", 26, 2), ("vmajor", 28, 2), ("vminor", 30, 2), ("root", 32, 8), ("bytes_used", 40, 8), ("id_table", 48, 8),
           ("xattr_table", 56, 8), ("inode_table", 64, 8), ("dir_table", 72, 8), ("frag_table", 80, 8), ("export_table", 88, 8)]
    for nm, o, w in sbf:
        fields["super." + nm] = (o, w)
    # inode / dir fields -> absolute offsets (fields that straddle a metadata block boundary are left out)
    for n in nodes:
        label = n.tag or ("ino%d" % n.ino)
        for k, (p, w) in n.fmap.items():
            if p % META + w <= META:
                fields["%s.%s" % (label, k)] = (it.file_offset(inode_table, p), w)
        if n.kind == "dir":
            for hi, hp in enumerate(n.headers):
                if hp % META + 12 <= META:
                    o = dt.file_offset(dir_table, hp)
                    fields["%s.hdr%d.count" % (label, hi)] = (o, 4)
                    fields["%s.hdr%d.start" % (label, hi)] = (o + 4, 4)
                    fields["%s.hdr%d.inode" % (label, hi)] = (o + 8, 4)
            for ei, (ep, nl) in enumerate(getattr(n, "_ek", [])):
                if ep % META + 8 + nl <= META:
                    o = dt.file_offset(dir_table, ep)
                    fields["%s.ent%d.offset" % (label, ei)] = (o, 2)
                    fields["%s.ent%d.inode_delta" % (label, ei)] = (o + 2, 2)
                    fields["%s.ent%d.type" % (label, ei)] = (o + 4, 2)
                    fields["%s.ent%d.name_size" % (label, ei)] = (o + 6, 2)
                    fields["%s.ent%d.name0" % (label, ei)] = (o + 8, 1)
    fields["inode_table.blk0.hdr"] = (inode_table, 2)
    fields["dir_table.blk0.hdr"] = (dir_table, 2)
    if pad and len(img) % pad:
        img.extend(bytes(pad - len(img) % pad))
    return bytes(img), fields


def set_field(img, fields, name, value):
    off, w = fields[name]
    b = bytearray(img)
    b[off:off + w] = (value & ((1 << (8 * w)) - 1)).to_bytes(w, "little")
    return bytes(b)


def get_field(img, fields, name):
    off, w = fields[name]
    return int.from_bytes(img[off:off + w], "little")
