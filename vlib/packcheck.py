"""Run gensquashfs on a tree spec under a configuration and decode the result with SQFSCK.
Shared by C01, C03, C08, C17."""
import os, shutil, tempfile, hashlib, json
from vlib import treegen, sqfsck, kmount
from vlib.common import run_tool_hangcheck, run_tool, sha

TOOLS = {}       # set by the check: name -> path


def cfg_args(cfg):
    a = ["-q", "-c", cfg.get("comp", "gzip"), "-b", str(cfg.get("bs", 4096))]
    if cfg.get("X"):
        a += ["-X", cfg["X"]]
    if cfg.get("B"):
        a += ["-B", str(cfg["B"])]
    if cfg.get("T"):
        a.append("-T")
    if cfg.get("e"):
        a.append("-e")
    if cfg.get("j"):
        a += ["-j", str(cfg["j"])]
    if cfg.get("Q"):
        a += ["-Q", str(cfg["Q"])]
    if cfg.get("defaults"):
        d = cfg["defaults"]
        a += ["-d", ",".join("%s=%s" % (k, ("0%o" % v) if k == "mode" else v) for k, v in d.items())]
    if cfg.get("set_uid") is not None:
        a += ["-u", str(cfg["set_uid"])]
    if cfg.get("set_gid") is not None:
        a += ["-g", str(cfg["set_gid"])]
    if cfg.get("all_root"):
        a.append("--all-root")
    return a


def cfg_model_kwargs(cfg):
    kw = {}
    if cfg.get("defaults"):
        kw["defaults"] = cfg["defaults"]
    if cfg.get("all_root"):
        kw["force_uid"] = 0
        kw["force_gid"] = 0
    if cfg.get("set_uid") is not None:
        kw["force_uid"] = cfg["set_uid"]
    if cfg.get("set_gid") is not None:
        kw["force_gid"] = cfg["set_gid"]
    return kw


def pack(spec, cfg, wd, mode="packfile", sortfile=None, extra_args=(), timeout=30, env=None):
    """returns (ToolResult, image_path, argv). wd is a fresh directory."""
    img = os.path.join(wd, "out.sqfs")
    argv = [TOOLS["gensquashfs"]] + cfg_args(cfg)
    if mode == "packfile":
        pf = treegen.render_packfile(spec, wd)
        with open(os.path.join(wd, "pack.txt"), "wb") as f:
            f.write(pf)
        argv += ["-F", os.path.join(wd, "pack.txt"), "-D", os.path.join(wd, "in")]
        xf = treegen.render_xattr_file(spec)
        if xf:
            with open(os.path.join(wd, "xattr.txt"), "wb") as f:
                f.write(xf)
            argv += ["-A", os.path.join(wd, "xattr.txt")]
    elif mode == "packdir":
        skipped = treegen.render_dir(spec, os.path.join(wd, "root"))
        if skipped:
            return None, None, skipped
        argv += ["-D", os.path.join(wd, "root"), "-x"]
        if cfg.get("keep_time"):
            argv.append("-k")
    if sortfile is not None:
        with open(os.path.join(wd, "sort.txt"), "wb") as f:
            f.write(sortfile)
        argv += ["-S", os.path.join(wd, "sort.txt")]
    argv += list(extra_args) + [img]
    r = run_tool(argv, timeout=timeout, env=env)
    if r.timeout:
        # hang rule: re-run alone with a 10x longer limit (after removing the partial output of the killed run)
        try:
            os.unlink(img)
        except OSError:
            pass
        r = run_tool(argv, timeout=timeout * 10, env=env)
    return r, img, argv


def decode(img_path, **kw):
    """returns (Image or None, error string or None)"""
    try:
        return sqfsck.load(img_path, **kw), None
    except sqfsck.Corrupt as e:
        return None, "decoder rejects image: %s" % e
    except Exception as e:   # struct errors etc. -> treat as undecodable
        return None, "decoder failed: %r" % e


def artefact_files(wd, limit=2_000_000):
    """collect small input files of a case for the replay artefact"""
    out = {}
    for root, dirs, files in os.walk(wd):
        for fn in files:
            p = os.path.join(root, fn)
            rel = os.path.relpath(p, wd)
            try:
                if os.path.islink(p) or not os.path.isfile(p):
                    continue
                if os.path.getsize(p) <= limit and len(out) < 60:
                    out["case/" + rel] = open(p, "rb").read()
            except OSError:
                pass
    return out
