"""Kernel squashfs as an independent reader oracle (loop mount, read-only). Never used on hostile images."""
import os, subprocess, hashlib, stat, tempfile, shutil

_avail = None


def available():
    global _avail
    if _avail is None:
        _avail = os.geteuid() == 0 and os.path.exists("/dev/loop-control") and shutil.which("mount") is not None
        if _avail:
            try:
                _avail = "squashfs" in open("/proc/filesystems").read()
            except Exception:
                _avail = False
    return _avail


def walk(image):
    """mount image, return path(bytes) -> dict like sqfsck.canon_tree (without layout), or None if mount failed"""
    mp = tempfile.mkdtemp(prefix="vf_mnt_")
    try:
        r = subprocess.run(["mount", "-t", "squashfs", "-o", "loop,ro", image, mp], capture_output=True)
        if r.returncode != 0:
            return None
        try:
            out = {}
            groups = {}
            root = os.fsencode(mp)
            stack = [(b"", root)]
            while stack:
                rel, full = stack.pop()
                st = os.lstat(full)
                e = {"mode": stat.S_IMODE(st.st_mode), "uid": st.st_uid, "gid": st.st_gid, "mtime": int(st.st_mtime)}
                try:
                    xs = {}
                    for k in os.listxattr(full, follow_symlinks=False):
                        xs[os.fsencode(k)] = os.getxattr(full, k, follow_symlinks=False)
                    e["xattrs"] = xs
                except OSError:
                    e["xattrs"] = {}
                m = st.st_mode
                if stat.S_ISDIR(m):
                    e["type"] = "dir"
                    for name in os.listdir(full):
                        stack.append(((rel + b"/" + name) if rel else name, full + b"/" + name))
                elif stat.S_ISREG(m):
                    e["type"] = "file"
                    e["size"] = st.st_size
                    h = hashlib.sha256()
                    with open(full, "rb") as f:
                        while True:
                            b = f.read(1 << 20)
                            if not b:
                                break
                            h.update(b)
                    e["sha"] = h.hexdigest()
                elif stat.S_ISLNK(m):
                    e["type"] = "slink"
                    e["target"] = os.readlink(full)
                elif stat.S_ISCHR(m) or stat.S_ISBLK(m):
                    e["type"] = "chr" if stat.S_ISCHR(m) else "blk"
                    e["rdev_majmin"] = (os.major(st.st_rdev), os.minor(st.st_rdev))
                elif stat.S_ISFIFO(m):
                    e["type"] = "fifo"
                elif stat.S_ISSOCK(m):
                    e["type"] = "sock"
                if e["type"] != "dir":
                    groups.setdefault(st.st_ino, []).append(rel)
                    e["_ino"] = st.st_ino
                out[rel] = e
            for p, e in out.items():
                if "_ino" in e:
                    g = sorted(groups[e.pop("_ino")])
                    if len(g) > 1:
                        e["links"] = tuple(g)
            return out
        finally:
            subprocess.run(["umount", "-l", mp], capture_output=True)
    finally:
        try:
            os.rmdir(mp)
        except OSError:
            pass


def compare(ctree, ktree):
    """ctree from sqfsck.canon_tree; returns list of differences"""
    diffs = []
    if set(ctree) != set(ktree):
        diffs.append("paths differ: only decoder %r, only kernel %r" % (sorted(set(ctree) - set(ktree))[:5], sorted(set(ktree) - set(ctree))[:5]))
    for p in ctree:
        if p not in ktree:
            continue
        a, b = ctree[p], ktree[p]
        for k in ("type", "mode", "uid", "gid", "mtime", "size", "sha", "target", "links", "xattrs"):
            if k in a or k in b:
                if k == "sha" and a.get(k) is None:
                    continue
                if k == "xattrs" and a.get("type") not in ("file", "dir"):
                    # the VFS refuses user.* on special files and symlinks, whatever the image says
                    fa = {x: v for x, v in (a.get(k) or {}).items() if not x.startswith(b"user.")}
                    fb = {x: v for x, v in (b.get(k) or {}).items() if not x.startswith(b"user.")}
                    if fa != fb:
                        diffs.append("%r: %s decoder=%r kernel=%r" % (p, k, fa, fb))
                    continue
                if a.get(k) != b.get(k):
                    diffs.append("%r: %s decoder=%r kernel=%r" % (p, k, a.get(k), b.get(k)))
        if a["type"] in ("chr", "blk"):
            dev = a["rdev"]
            mm = ((dev & 0xFFF00) >> 8, (dev & 0xFF) | ((dev >> 12) & 0xFFF00))
            if mm != b.get("rdev_majmin"):
                diffs.append("%r: rdev decoder=%r kernel=%r" % (p, mm, b.get("rdev_majmin")))
    return diffs
