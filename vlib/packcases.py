"""Case generators for the packing checks (C01, C03): bounded-exhaustive trees x configurations + 1-D sweeps."""
import itertools, hashlib
from vlib import treegen
from vlib.treegen import E, content_pattern

CFG_QUICK = [
    dict(comp="gzip", bs=4096),
    dict(comp="xz", bs=4096, T=1, e=1),
    dict(comp="lz4", bs=4096, j=4, Q=1),
    dict(comp="zstd", bs=8192, X="level=3"),
    dict(comp="gzip", bs=4096, B=126976, e=1),      # a UBI erase-block size: not a power of two
]
CFG_THOROUGH = CFG_QUICK + [
    dict(comp="gzip", bs=131072, e=1, X="level=1"),
    dict(comp="lz4", bs=4096, X="hc", T=1),
    dict(comp="zstd", bs=4096, T=1, e=1, j=1),
    dict(comp="xz", bs=65536, X="dictsize=65536"),
    dict(comp="gzip", bs=4096, defaults=dict(uid=11, gid=12, mode=0o711, mtime=12345)),
    dict(comp="gzip", bs=4096, set_uid=77),
    dict(comp="zstd", bs=4096, set_gid=88, set_uid=99),
    dict(comp="gzip", bs=4096, all_root=1),
    dict(comp="zstd", bs=1048576),
    dict(comp="lz4", bs=4096, B=1024),
    dict(comp="gzip", bs=4096, B=65536),
    dict(comp="zstd", bs=4096, B=3000, e=1),
    dict(comp="xz", bs=131072, B=1048576, T=1),
]
CFG_OPTION_QUICK = [
    dict(comp="gzip", bs=4096, defaults=dict(uid=11, gid=12, mode=0o711, mtime=12345)),
    dict(comp="gzip", bs=4096, set_uid=77, set_gid=88),
    dict(comp="gzip", bs=4096, set_uid=77),          # each forcing option on its own: the other id must come from the input
    dict(comp="gzip", bs=4096, set_gid=88),
    dict(comp="gzip", bs=4096, set_uid=77, defaults=dict(gid=12, mode=0o700)),
    dict(comp="gzip", bs=4096, all_root=1),
]


def tree_cases(k, cfgs, B=None):
    for names, spec in treegen.trees(k):
        for cfg in cfgs:
            yield dict(kind="tree", names=names, spec=spec, cfg=cfg, mode="packfile")


def packdir_cases(k, cfgs):
    # templates whose names cannot exist in a real directory are the same; all are creatable as root
    for names, spec in treegen.trees(k):
        if any(e["type"] == "link" and False for e in spec):
            continue
        for cfg in cfgs:
            yield dict(kind="tree-dir", names=names, spec=spec, cfg=cfg, mode="packdir")


def sweep_cases(tier):
    quick = tier == "quick"
    B = 4096
    gz = dict(comp="gzip", bs=B)
    # (a) directory with n entries, names long enough that listings cross 8 KiB / 64 KiB
    ns = list(range(0, 41)) + [255, 256, 257, 300] if quick else list(range(0, 301)) + [511, 512, 513, 700]
    for n in ns:
        spec = [E(b"D", "dir", 0o755)] + [E(b"D/e%04d" % i, "fifo", 0o600) for i in range(n)]
        yield dict(kind="sweep-dirents", names=("n=%d" % n,), spec=spec, cfg=gz, mode="packfile")
    for n in ([30, 35, 300] if quick else [30, 31, 32, 33, 34, 35, 36, 255, 256, 257, 300, 512]):
        # 230-byte names: 35 entries cross 8 KiB; 280 cross 64 KiB
        spec = [E(b"L", "dir", 0o755)] + [E(b"L/" + (b"%04d" % i) + b"x" * 226, "fifo", 0o600) for i in range(n)]
        yield dict(kind="sweep-dirents-longnames", names=("n=%d" % n,), spec=spec, cfg=gz, mode="packfile")
    # (a2) listing size one byte at a time across the 64 KiB boundary (basic/extended directory inode switch) and the 8 KiB metadata block
    def listing_dir(total_name_bytes, n):
        base, extra = divmod(total_name_bytes, n)
        ents = []
        for i in range(n):
            ln = base + (1 if i < extra else 0)
            ents.append(E(b"W/" + (b"%03d" % i) + b"y" * (ln - 3), "fifo", 0o600))
        return [E(b"W", "dir", 0o755)] + ents
    n = 250
    # listing = 12 * headers + 8 * n + names ; headers is 1 or 2 => sweep a window that covers both
    # ~253-byte names: a run of entries must fit one 8 KiB metadata block, so there are ~15 headers; the window is wide enough for 10..20
    for tb in (range(63300, 63420) if quick else range(63200, 63600)):
        yield dict(kind="sweep-listing-64k", names=("name-bytes=%d" % tb,), spec=listing_dir(tb, n), cfg=gz, mode="packfile")
    n = 40
    lo8 = 8192 - 8 * n - 12 * 2 - 4
    for tb in (range(lo8 - 30, lo8 + 30) if quick else range(lo8 - 40, lo8 + 60)):
        yield dict(kind="sweep-listing-8k", names=("name-bytes=%d" % tb,), spec=listing_dir(tb, n), cfg=gz, mode="packfile")
    # (b) file sizes at both block sizes, content classes
    sizes = list(range(0, 17)) + [B - 1, B, B + 1, 2 * B - 1, 2 * B, 2 * B + 1, 3 * B + 1] if quick else \
        list(range(0, 65)) + [j * B + d for j in (1, 2, 3) for d in (-1, 0, 1)] + [131071, 131072, 131073]
    for comp in (("gzip", "lz4") if quick else ("gzip", "xz", "lz4", "zstd")):
        for bs in ((B,) if quick else (B, 131072)):
            for s in sizes:
                for cls in ("rnd", "zero", "zero-prefix", "zero-suffix"):
                    if cls == "rnd":
                        c = content_pattern("s%d" % s, s)
                    elif cls == "zero":
                        c = bytes(s)
                    elif cls == "zero-prefix":
                        c = bytes(s // 2) + content_pattern("zp%d" % s, s - s // 2)
                    else:
                        c = content_pattern("zs%d" % s, s - s // 2) + bytes(s // 2)
                    if quick and cls != "rnd" and s not in (B - 1, B, B + 1, 2 * B + 1, 3 * B + 1, 7):
                        continue
                    spec = [E(b"f", "file", content=c), E(b"g", "file", content=c), E(b"h", "file", content=c[:max(0, len(c) - 1)] + b"!")]
                    yield dict(kind="sweep-filesize", names=("size=%d" % s, cls, comp, "bs=%d" % bs), spec=spec,
                               cfg=dict(comp=comp, bs=bs), mode="packfile")
    # (b2) files made of repeating blocks, neighbours in the image: a block run that matches partly in the previous file and partly in the file itself
    P, Q = content_pattern("P", B), content_pattern("Q", B)
    units = [("P", P), ("PQ", P + Q)]
    for uname, u in units:
        for i in (1, 2, 3):
            for j in (1, 2, 3, 4):
                for tail in (0, 10):
                    if quick and (tail and (i, j) not in ((1, 2), (2, 3))):
                        continue
                    spec = [E(b"a", "file", content=u * i), E(b"b", "file", content=u * j + content_pattern("t", tail)), E(b"c", "file", content=content_pattern("c", B + 3))]
                    yield dict(kind="sweep-repeated-blocks", names=(uname, "a=%d" % i, "b=%d" % j, "tail=%d" % tail), spec=spec,
                               cfg=dict(comp="gzip", bs=B) if (i + j) % 2 else dict(comp="lz4", bs=B, T=1), mode="packfile")
    # (b3) fragment block in flight: enough small tails to overflow a fragment block, then files whose last partial block is all zero / whose
    #      blocks are sparse, then more tails (the completion order of data blocks, fragment blocks and sparse tails differs from submission order)
    for nsmall in (3, 4):
        for nblk in (1, 2):
            for ztail in (1, 1000, B - 1):
                for kind in ("zero-tail", "zero-block+tail", "all-zero"):
                    if quick and (nsmall, nblk) not in ((3, 1), (4, 2)) and kind != "zero-tail":
                        continue
                    spec = [E(b"a%d" % i, "file", content=content_pattern("sm%d" % i, 1500 + i)) for i in range(nsmall)]
                    for r in range(3):
                        if kind == "zero-tail":
                            c = content_pattern("zt%d" % r, nblk * B) + bytes(ztail)
                        elif kind == "zero-block+tail":
                            c = content_pattern("zb%d" % r, B) + bytes(nblk * B) + content_pattern("zbt%d" % r, ztail)
                        else:
                            c = bytes(nblk * B + ztail)
                        spec.append(E(b"b%d" % r, "file", content=c))
                        spec.append(E(b"c%d" % r, "file", content=content_pattern("tl%d" % r, 1400 + r)))
                    yield dict(kind="sweep-fragment-in-flight", names=("small=%d" % nsmall, "blocks=%d" % nblk, "zeros=%d" % ztail, kind), spec=spec,
                               cfg=dict(comp="gzip", bs=B, j=1) if nsmall == 3 else dict(comp="lz4", bs=B, j=4), mode="packfile")
                    if nsmall == 3:
                        # the same files without tail packing: the partial last block is an ordinary (here: sparse) data block that carries the last-block mark
                        yield dict(kind="sweep-zero-tail-no-tail-packing", names=("blocks=%d" % nblk, "zeros=%d" % ztail, kind), spec=spec[nsmall:],
                                   cfg=dict(comp="gzip", bs=B, T=1), mode="packfile")
    # (c) distinct owner ids
    for n in ([1, 2, 255, 256, 257, 65535, 65536] if quick else [1, 2, 255, 256, 257, 2047, 2048, 2049, 65534, 65535, 65536, 65537]):
        # n distinct ids in total (0 is always there for the root); the id that overflows the table is first seen as uid+gid, as a uid only, as a gid only
        hows = ("both",) if n < 60000 else ("both", "uid", "gid", "gid-last")
        if quick and n == 65535:
            hows = ("both",)
        if quick and n == 65536:
            hows = ("both", "gid-last")
        for how in hows:
            if how == "both":
                spec = [E(b"o%05d" % i, "fifo", 0o600, i, i) for i in range(1, n)]
            elif how == "uid":
                spec = [E(b"o%05d" % i, "fifo", 0o600, i, 0) for i in range(1, n)]
            elif how == "gid":
                spec = [E(b"o%05d" % i, "fifo", 0o600, 0, i) for i in range(1, n)]
            else:
                # all but the last id arrive as uids, the last one as the gid of an entry whose uid is already known
                spec = [E(b"o%05d" % i, "fifo", 0o600, i, 0) for i in range(1, n - 1)] + [E(b"zzz_last", "fifo", 0o640, 1, 777777)]
                spec = spec if n > 2 else [E(b"zzz_last", "fifo", 0o640, 0, 777777)]
            yield dict(kind="sweep-ids", names=("ids=%d" % n, how), spec=spec, cfg=gz, mode="packfile")
    # (d) distinct xattr sets
    for n in ([1, 2, 3, 4] if quick else [1, 2, 3, 4, 510, 511, 512, 513, 514, 1023, 1024, 1025]):
        spec = [E(b"x%05d" % i, "fifo", 0o600, xattrs={b"user.n": b"%d" % i, b"user.shared": b"S" * 40}) for i in range(n)]
        yield dict(kind="sweep-xattrsets", names=("sets=%d" % n,), spec=spec, cfg=gz, mode="packfile")
    # (e) hard-link groups of size 2..3 to files, devices, fifos; link before/after its target in name order
    for tgt_type in ("file", "file-sparse", "file-blocks", "file-xattr", "chr", "fifo", "slink"):
        for gsize in (2, 3):
            for before in (True, False):
                tname = b"m"
                # targets whose inode is already in its extended form before the link count is stored: a sparse block, an xattr
                base = {"file": E(tname, "file", content=b"target"), "chr": E(tname, "chr", 0o600, dev=(1, 3)),
                        "file-sparse": E(tname, "file", content=bytes(2 * B) + content_pattern("sp", B + 10)),
                        "file-blocks": E(tname, "file", content=content_pattern("fb", 2 * B + 10)),
                        "file-xattr": E(tname, "file", content=b"xa", xattrs={b"user.k": b"v"}),
                        "fifo": E(tname, "fifo", 0o600), "slink": E(tname, "slink", 0o777, target=b"zz")}[tgt_type]
                spec = [base]
                for i in range(gsize - 1):
                    nm = (b"a%d" % i) if before else (b"z%d" % i)
                    spec.append(E(nm, "link", target=tname))
                spec.append(E(b"sub/deep", "link", target=tname))
                yield dict(kind="sweep-hardlinks", names=(tgt_type, "group=%d" % (gsize + 1), "before" if before else "after"),
                           spec=spec, cfg=gz, mode="packfile")
    # (f) every inode type in one tree, all compressors, extended + basic
    alltypes = [E(b"d", "dir", 0o750, 1, 2), E(b"d/f", "file", 0o640, 3, 4, content=content_pattern("x", 5000)),
                E(b"d/l", "slink", 0o777, 5, 6, target=b"../x"), E(b"d/c", "chr", 0o600, dev=(4, 64)),
                E(b"d/b", "blk", 0o660, dev=(8, 1)), E(b"d/p", "fifo", 0o644), E(b"d/s", "sock", 0o755),
                E(b"d/xf", "file", 0o640, content=b"xattr'd", xattrs={b"user.a": b"1"}),
                E(b"d/xl", "slink", 0o777, target=b"t", xattrs={b"trusted.a": b"2"}),
                E(b"d/xc", "chr", 0o600, dev=(4, 65), xattrs={b"security.a": b"3"}),
                E(b"d/xp", "fifo", 0o644, xattrs={b"user.a": b"1"}),
                E(b"d/xs", "sock", 0o755, xattrs={b"user.b": b"4"}),
                E(b"xd", "dir", 0o700, xattrs={b"user.a": b"1"})]
    for comp in ("gzip", "xz", "lz4", "zstd"):
        for e in (0, 1):
            yield dict(kind="sweep-alltypes", names=(comp, "e=%d" % e), spec=alltypes, cfg=dict(comp=comp, bs=B, e=e), mode="packfile")
    if not quick:
        # inode-number distance across 32767: hard link whose target's number is far away
        n = 33000
        spec = [E(b"a/first", "link", target=b"z/last")] + [E(b"m/e%05d" % i, "fifo", 0o600) for i in range(n)] + [E(b"z/last", "fifo", 0o600)]
        yield dict(kind="sweep-inode-delta", names=("n=%d" % n,), spec=spec, cfg=gz, mode="packfile")
