"""Small end-to-end scenarios shared by the ENV checks (C11..C14)."""
import os, io, tarfile
from vlib import treegen
from vlib.treegen import E, content_pattern

B = 4096


def spec_rich():
    """fragments, multi-block file, duplicate (dedup truncate), sparse, xattrs, all inode types"""
    big = content_pattern("big", 2 * B + 300)
    return [E(b"d", "dir", 0o755), E(b"d/big", "file", content=big), E(b"d/dup", "file", content=big),
            E(b"d/small", "file", content=b"tail-only\n"), E(b"d/zero", "file", content=bytes(B) + b"x"),
            E(b"l", "slink", 0o777, target=b"d/small"), E(b"c", "chr", 0o600, dev=(1, 3)), E(b"p", "fifo", 0o600, 5, 6),
            E(b"x", "file", content=b"xa", xattrs={b"user.a": b"1", b"user.long": b"L" * 200}),
            E(b"y", "file", content=b"ya", xattrs={b"user.long": b"L" * 200})]


def spec_small():
    return [E(b"a", "file", content=b"hello\n"), E(b"b", "file", content=content_pattern("b", B + 10))]


def spec_frag():
    """enough tails to overflow a fragment block while data blocks follow"""
    out = []
    for i in range(5):
        out.append(E(b"t%d" % i, "file", content=content_pattern("t%d" % i, 1500)))
    out.append(E(b"m", "file", content=content_pattern("m", 3 * B)))
    out.append(E(b"t9", "file", content=content_pattern("t0", 1500)))   # duplicate tail
    return out


def make_tar(spec, fmt=tarfile.GNU_FORMAT):
    """tar archive of the spec (Python tarfile as writer; deterministic)"""
    bio = io.BytesIO()
    tf = tarfile.open(fileobj=bio, mode="w", format=fmt)
    for e in spec:
        ti = tarfile.TarInfo(os.fsdecode(e["path"]))
        ti.mode = e["mode"]
        ti.uid, ti.gid = e["uid"], e["gid"]
        ti.mtime = e.get("mtime", 1500000000)
        t = e["type"]
        if t == "dir":
            ti.type = tarfile.DIRTYPE
            tf.addfile(ti)
        elif t == "file":
            ti.size = len(e["content"])
            tf.addfile(ti, io.BytesIO(e["content"]))
        elif t == "slink":
            ti.type = tarfile.SYMTYPE
            ti.linkname = os.fsdecode(e["target"])
            tf.addfile(ti)
        elif t == "link":
            ti.type = tarfile.LNKTYPE
            ti.linkname = os.fsdecode(e["target"])
            tf.addfile(ti)
        elif t in ("chr", "blk"):
            ti.type = tarfile.CHRTYPE if t == "chr" else tarfile.BLKTYPE
            ti.devmajor, ti.devminor = e["dev"]
            tf.addfile(ti)
        elif t == "fifo":
            ti.type = tarfile.FIFOTYPE
            tf.addfile(ti)
    tf.close()
    return bio.getvalue()
