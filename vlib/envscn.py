"""End-to-end tool scenarios for the ENV checks C12 (partial transfers) and C13 (fail-stop).
A scenario is prepared once (inputs on disk) and can be run many times under different plans, each run in
its own output directory. snapshot() captures everything the user would observe."""
import os, io, gzip, shutil, stat, hashlib, tempfile, tarfile, lzma, bz2
from vlib import treegen, scenarios, envrun, packcheck, tarmk, tarcases, codecs
from vlib.common import sha, sha_file, run_tool
from vlib.treegen import E, content_pattern

B = 4096


def tree_snapshot(root):
    """recursive snapshot of a directory: path -> (type, mode, size, sha/target, nblocks>0)"""
    out = {}
    rootb = os.fsencode(root)
    if not os.path.lexists(rootb):
        return None
    for dp, dns, fns in os.walk(rootb):
        for n in dns + fns:
            full = os.path.join(dp, n)
            rel = os.path.relpath(full, rootb)
            st = os.lstat(full)
            m = st.st_mode
            if stat.S_ISREG(m):
                out[rel] = ("file", stat.S_IMODE(m), st.st_size, sha_file(full))
            elif stat.S_ISLNK(m):
                out[rel] = ("slink", 0, 0, os.readlink(full))
            elif stat.S_ISDIR(m):
                out[rel] = ("dir", stat.S_IMODE(m), 0, None)
            else:
                out[rel] = (stat.S_IFMT(m), stat.S_IMODE(m), 0, st.st_rdev)
    return out


class Scn:
    """name, tool, packer (has an output image that must be removed on failure)"""

    def __init__(self, name, tool, T, base, prepare, argv_fn, out_kind, packer=False, stdin_file=None, relative_out=False, cwd_fn=None):
        self.name, self.tool, self.T, self.base = name, tool, T, base
        self.argv_fn, self.out_kind, self.packer = argv_fn, out_kind, packer
        self.stdin_file = stdin_file
        self.relative_out = relative_out
        self.cwd_fn = cwd_fn
        os.makedirs(base, exist_ok=True)
        prepare(base)

    def run(self, plan="", want_log=False, timeout=60, rundir=None, stdin_bytes=None, stdout_pipe=False, env=None, tools=None):
        """returns dict(rc, err, crashed, timeout, snap, log, out_exists)"""
        rd = rundir or tempfile.mkdtemp(prefix="r", dir=self.base)
        try:
            outp = os.path.join(rd, "out")
            cwd = self.cwd_fn(self.base, rd) if self.cwd_fn else rd
            argv_out = "out" if self.relative_out else outp
            argv = self.argv_fn(self.base, argv_out)
            if tools is not None:
                argv = [tools[self.tool]] + argv[1:]       # the same scenario with another build of the tool (e.g. without the controller)
            stdout_file = os.path.join(rd, "stdout.bin") if not stdout_pipe else None
            r, log = envrun.run_env(argv, plan=plan, out_path=outp if self.packer else None,
                                    stdin_file=self.stdin_file(self.base) if (self.stdin_file and stdin_bytes is None) else None,
                                    stdin=stdin_bytes, cwd=cwd, timeout=timeout, want_log=want_log, stdout_file=stdout_file, env=env)
            res = dict(rc=r.rc, err=r.err, crashed=r.crashed, timeout=r.timeout, log=log, crash_fp=r.crash_fingerprint() if r.crashed else None)
            # where the user named the output (relative to the cwd the tool was started in)
            user_out = os.path.join(cwd, "out") if self.relative_out else outp
            res["out_exists"] = os.path.lexists(user_out)
            if self.out_kind == "image":
                res["snap"] = sha_file(user_out) if res["out_exists"] and os.path.isfile(user_out) else None
            elif self.out_kind == "stdout":
                res["snap"] = sha_file(stdout_file) if stdout_file else sha(r.out)
            elif self.out_kind == "tree":
                res["snap"] = tree_snapshot(user_out)
            return res
        finally:
            if rundir is None:
                shutil.rmtree(rd, ignore_errors=True)


def build_scenarios(T, base, tier, serial_T=None):
    """T: tool paths of the envwrap variant"""
    rich = scenarios.spec_rich()
    S = []

    # S1: gensquashfs --pack-dir (reads files, dedup re-read through pread)
    def prep_dir(b):
        treegen.render_dir(rich, os.path.join(b, "root"))
    S.append(Scn("gensquashfs-packdir", "gensquashfs", T, os.path.join(base, "s1"), prep_dir,
                 lambda b, out: [T["gensquashfs"], "-q", "-b", "4096", "-j", "1", "-D", os.path.join(b, "root"), "-x", out], "image", packer=True))

    # S1b: many tails: fragment blocks overflow, a late tail duplicates one in a fragment block that is already on disk (read back + uncompress + compare)
    fragspec = scenarios.spec_frag() + [E(b"u%d" % i, "file", content=content_pattern("u%d" % i, 1400)) for i in range(4)] + \
        [E(b"zdup", "file", content=content_pattern("t1", 1500)), E(b"zdup2", "file", content=b"A" * 1300), E(b"a0", "file", content=b"A" * 1300)]

    def prep_frag(b):
        pf = treegen.render_packfile(fragspec, b)
        open(os.path.join(b, "pack.txt"), "wb").write(pf)
    S.append(Scn("gensquashfs-fragment-dedup-on-disk", "gensquashfs", T, os.path.join(base, "s1b"), prep_frag,
                 lambda b, out: [T["gensquashfs"], "-q", "-b", "4096", "-j", "1", "-c", "gzip", "-F", os.path.join(b, "pack.txt"), "-D", os.path.join(b, "in"), out],
                 "image", packer=True))

    # S2: gensquashfs pack file + sort file + xattr file (text inputs through get_line)
    def prep_pf(b):
        pf = treegen.render_packfile(rich, b)
        open(os.path.join(b, "pack.txt"), "wb").write(pf)
        open(os.path.join(b, "xattr.txt"), "wb").write(treegen.render_xattr_file(rich))
        open(os.path.join(b, "sort.txt"), "wb").write(b"# sort\n-5 d/small\n3 [glob] d/*\n")
    S.append(Scn("gensquashfs-packfile-sort-xattr", "gensquashfs", T, os.path.join(base, "s2"), prep_pf,
                 lambda b, out: [T["gensquashfs"], "-q", "-b", "4096", "-j", "1", "-c", "gzip", "-F", os.path.join(b, "pack.txt"), "-D", os.path.join(b, "in"),
                                 "-S", os.path.join(b, "sort.txt"), "-A", os.path.join(b, "xattr.txt"), out], "image", packer=True))

    # S2t: --no-tail-packing: the last (partial) block of a file is a data block of its own that carries the end-of-file bookkeeping
    S.append(Scn("gensquashfs-no-tail-packing", "gensquashfs", T, os.path.join(base, "s2t"), prep_pf,
                 lambda b, out: [T["gensquashfs"], "-q", "-b", "4096", "-j", "1", "-c", "gzip", "-T", "-F", os.path.join(b, "pack.txt"), "-D", os.path.join(b, "in"), out],
                 "image", packer=True))

    # S2r: same with relative output path and --pack-dir (tool changes its working directory)
    S.append(Scn("gensquashfs-packfile-relative-out", "gensquashfs", T, os.path.join(base, "s2r"), prep_pf,
                 lambda b, out: [T["gensquashfs"], "-q", "-b", "4096", "-j", "1", "-F", os.path.join(b, "pack.txt"), "-D", os.path.join(b, "in"), out],
                 "image", packer=True, relative_out=True))

    # S3/S4: tar2sqfs from stdin (file-backed for a deterministic call log), plain and gzip-wrapped
    def prep_tar(b):
        t = scenarios.make_tar(rich)
        open(os.path.join(b, "in.tar"), "wb").write(t)
        open(os.path.join(b, "in.tar.gz"), "wb").write(gzip.compress(t, mtime=0))
    S.append(Scn("tar2sqfs-plain", "tar2sqfs", T, os.path.join(base, "s3"), prep_tar,
                 lambda b, out: [T["tar2sqfs"], "-q", "-b", "4096", "-j", "1", out], "image", packer=True, stdin_file=lambda b: os.path.join(b, "in.tar")))
    S.append(Scn("tar2sqfs-no-tail-packing", "tar2sqfs", T, os.path.join(base, "s3t"), prep_tar,
                 lambda b, out: [T["tar2sqfs"], "-q", "-b", "4096", "-j", "1", "-T", out], "image", packer=True, stdin_file=lambda b: os.path.join(b, "in.tar")))
    S.append(Scn("tar2sqfs-gzip", "tar2sqfs", T, os.path.join(base, "s4"), prep_tar,
                 lambda b, out: [T["tar2sqfs"], "-q", "-b", "4096", "-j", "1", "-c", "lz4", out], "image", packer=True, stdin_file=lambda b: os.path.join(b, "in.tar.gz")))

    # image for the readers
    def prep_img(b):
        wd = os.path.join(b, "mk")
        os.makedirs(wd)
        pf = treegen.render_packfile(rich, wd)
        open(os.path.join(wd, "pack.txt"), "wb").write(pf)
        open(os.path.join(wd, "xattr.txt"), "wb").write(treegen.render_xattr_file(rich))
        r = run_tool([T["gensquashfs"], "-q", "-b", "4096", "-c", "gzip", "-F", os.path.join(wd, "pack.txt"), "-D", os.path.join(wd, "in"),
                      "-A", os.path.join(wd, "xattr.txt"), os.path.join(b, "img.sqfs")], timeout=60)
        if r.rc != 0:
            raise RuntimeError("cannot build reader image: %s" % r.err[-300:])
    S.append(Scn("sqfs2tar", "sqfs2tar", T, os.path.join(base, "s5"), prep_img,
                 lambda b, out: [T["sqfs2tar"], os.path.join(b, "img.sqfs")], "stdout"))
    S.append(Scn("sqfs2tar-xz", "sqfs2tar", T, os.path.join(base, "s6"), prep_img,
                 lambda b, out: [T["sqfs2tar"], "-c", "xz", os.path.join(b, "img.sqfs")], "stdout"))
    S.append(Scn("rdsquashfs-cat", "rdsquashfs", T, os.path.join(base, "s7"), prep_img,
                 lambda b, out: [T["rdsquashfs"], "-c", "d/big", os.path.join(b, "img.sqfs")], "stdout"))
    S.append(Scn("rdsquashfs-unpack", "rdsquashfs", T, os.path.join(base, "s8"), prep_img,
                 lambda b, out: [T["rdsquashfs"], "-q", "-u", "/", "-p", out, "-C", "-T", os.path.join(b, "img.sqfs")], "tree"))
    S.append(Scn("rdsquashfs-unpack-nosparse", "rdsquashfs", T, os.path.join(base, "s9"), prep_img,
                 lambda b, out: [T["rdsquashfs"], "-q", "-u", "/", "-p", out, "-Z", os.path.join(b, "img.sqfs")], "tree"))
    S.append(Scn("rdsquashfs-describe", "rdsquashfs", T, os.path.join(base, "s10"), prep_img,
                 lambda b, out: [T["rdsquashfs"], "-d", os.path.join(b, "img.sqfs")], "stdout"))
    # S11: glob pack file over a directory (scans with readdir/stat, reads file contents)
    def prep_glob(b):
        treegen.render_dir(rich, os.path.join(b, "root"))
        open(os.path.join(b, "glob.txt"), "wb").write(b"dir /x 0755 0 0\nglob /x 0644 5 6 -type f ./d\nglob /y 0755 0 0 -type d .\n")
    S.append(Scn("gensquashfs-glob", "gensquashfs", T, os.path.join(base, "s11"), prep_glob,
                 lambda b, out: [T["gensquashfs"], "-q", "-b", "4096", "-j", "1", "-c", "zstd", "-F", os.path.join(b, "glob.txt"), "-D", os.path.join(b, "root"), out],
                 "image", packer=True))

    # S12: tar2sqfs from a PAX archive with xattrs, a sparse file, long names and a hard link
    def prep_pax(b):
        TE = tarcases.E
        sp = content_pattern("s0", 512) + bytes(1024) + content_pattern("s1", 512) + bytes(3 * B) + content_pattern("s2", 100)
        ents = [TE(b"d", "dir"), TE(tarcases.name_of_len(180), "file", content=content_pattern("ln", 700), xattrs={b"user.a": b"1", b"security.s": b"\x00\x01bin"}),
                TE(b"d/sparse", "file", content=sp, holes=[(512, 1024), (2048, 3 * B)], sparse="1.0"),
                TE(b"d/f", "file", content=content_pattern("f", B + 5), uid=1 << 22, gid=7, pax_ids=True), TE(b"d/h", "link", target=b"d/f"),
                TE(b"d/l", "slink", target=tarcases.name_of_len(150, 40))]
        open(os.path.join(b, "in.tar"), "wb").write(tarmk.archive(ents, "pax"))
    S.append(Scn("tar2sqfs-pax-xattr-sparse", "tar2sqfs", T, os.path.join(base, "s12"), prep_pax,
                 lambda b, out: [T["tar2sqfs"], "-q", "-b", "4096", "-j", "1", "-c", "gzip", out], "image", packer=True, stdin_file=lambda b: os.path.join(b, "in.tar")))

    # S12b: an archive larger than the 128 KiB stream buffer whose first member ends exactly at the buffer boundary: the next read() is issued by the
    #       header reader with nothing handed out yet (an error there must not be mistaken for the end of the archive)
    def prep_bigtar(b):
        TE = tarcases.E
        ents = [TE(b"a_big.bin", "file", content=content_pattern("big", 131072 - 512)), TE(b"b_small.txt", "file", content=b"second member\n"),
                TE(b"c_dir", "dir"), TE(b"c_dir/c_small.txt", "file", content=content_pattern("c", 700))]
        open(os.path.join(b, "in.tar"), "wb").write(tarmk.archive(ents, "ustar"))
    S.append(Scn("tar2sqfs-buffer-boundary", "tar2sqfs", T, os.path.join(base, "s12b"), prep_bigtar,
                 lambda b, out: [T["tar2sqfs"], "-q", "-b", "131072", "-j", "1", "-c", "lz4", out], "image", packer=True, stdin_file=lambda b: os.path.join(b, "in.tar")))

    # S12c/d: one record that spans several 8 KiB metadata blocks (a 20000-byte symlink target, a 30000-byte xattr value): the metadata writer
    #         flushes more than once inside a single append call
    def prep_longlink(b):
        spec = [E(b"d", "dir", 0o755), E(b"d/long", "slink", 0o777, target=b"/".join([b"t" * 99] * 200)), E(b"d/after", "file", content=b"after\n"),
                E(b"e", "slink", 0o777, target=b"short")]
        pf = treegen.render_packfile(spec, b)
        open(os.path.join(b, "pack.txt"), "wb").write(pf)
    S.append(Scn("gensquashfs-long-symlink", "gensquashfs", T, os.path.join(base, "s12c"), prep_longlink,
                 lambda b, out: [T["gensquashfs"], "-q", "-b", "4096", "-j", "1", "-c", "lz4", "-F", os.path.join(b, "pack.txt"), "-D", os.path.join(b, "in"), out],
                 "image", packer=True))

    def prep_bigxattr(b):
        TE = tarcases.E
        ents = [TE(b"f", "file", content=b"payload\n", xattrs={b"user.big": content_pattern("xv", 30000), b"user.small": b"s"}), TE(b"g", "file", content=b"g", xattrs={b"user.small": b"s"})]
        open(os.path.join(b, "in.tar"), "wb").write(tarmk.archive(ents, "pax"))
    S.append(Scn("tar2sqfs-big-xattr", "tar2sqfs", T, os.path.join(base, "s12d"), prep_bigxattr,
                 lambda b, out: [T["tar2sqfs"], "-q", "-b", "4096", "-j", "1", "-c", "lz4", out], "image", packer=True, stdin_file=lambda b: os.path.join(b, "in.tar")))

    # S12e/f: inputs and outputs larger than the 128 KiB stream buffers: the refill / flush paths run in the middle of a file
    bigspec = [E(b"big.bin", "file", content=content_pattern("bb", 2 * 131072 + 100)), E(b"small", "file", content=b"small\n"),
               E(b"exact.bin", "file", content=content_pattern("ex", 131072))]

    def prep_bigdir(b):
        treegen.render_dir(bigspec, os.path.join(b, "root"))
    S.append(Scn("gensquashfs-big-file", "gensquashfs", T, os.path.join(base, "s12e"), prep_bigdir,
                 lambda b, out: [T["gensquashfs"], "-q", "-b", "32768", "-j", "1", "-c", "lz4", "-D", os.path.join(b, "root"), out], "image", packer=True))

    def prep_bigimg(b):
        wd = os.path.join(b, "mk")
        os.makedirs(wd)
        pf = treegen.render_packfile(bigspec, wd)
        open(os.path.join(wd, "pack.txt"), "wb").write(pf)
        r = run_tool([T["gensquashfs"], "-q", "-b", "32768", "-c", "lz4", "-F", os.path.join(wd, "pack.txt"), "-D", os.path.join(wd, "in"), os.path.join(b, "img.sqfs")], timeout=60)
        if r.rc != 0:
            raise RuntimeError("cannot build reader image: %s" % r.err[-300:])
    S.append(Scn("sqfs2tar-big-file", "sqfs2tar", T, os.path.join(base, "s12f"), prep_bigimg,
                 lambda b, out: [T["sqfs2tar"], os.path.join(b, "img.sqfs")], "stdout"))
    S.append(Scn("rdsquashfs-cat-big-file", "rdsquashfs", T, os.path.join(base, "s12g"), prep_bigimg,
                 lambda b, out: [T["rdsquashfs"], "-c", "big.bin", os.path.join(b, "img.sqfs")], "stdout"))

    # S12h: one file inode whose block-size list (2304 entries = 9216 bytes, written in chunks of 128) is longer than a metadata block: the
    #       block boundary falls into a chunk that is not the last one
    def prep_manyblocks(b):
        root = os.path.join(b, "root")
        os.makedirs(os.path.join(root, "images"))
        with open(os.path.join(root, "images", "disk.img"), "wb") as f:
            f.truncate(9 * 1024 * 1024)
            for off in (0, 5 * 4096 + 17, 1100 * 4096, 2303 * 4096):
                f.seek(off)
                f.write(content_pattern("blk%d" % off, 600))
        open(os.path.join(root, "readme"), "wb").write(b"small\n")
    S.append(Scn("gensquashfs-many-blocks-inode", "gensquashfs", T, os.path.join(base, "s12h"), prep_manyblocks,
                 lambda b, out: [T["gensquashfs"], "-q", "-b", "4096", "-j", "1", "-c", "gzip", "-D", os.path.join(b, "root"), out], "image", packer=True))

    # S13: rdsquashfs xattr dump and stat (xattr reader, id table)
    S.append(Scn("rdsquashfs-xattr", "rdsquashfs", T, os.path.join(base, "s13"), prep_img,
                 lambda b, out: [T["rdsquashfs"], "-x", "x", os.path.join(b, "img.sqfs")], "stdout"))
    if tier == "thorough":
        def prep_tarz(b):
            t = scenarios.make_tar(rich)
            for ext, c in (("xz", "xz"), ("zst", "zstd"), ("bz2", "bzip2")):
                open(os.path.join(b, "in.tar." + ext), "wb").write(codecs.compress(c, t))
        for ext in ("xz", "zst", "bz2"):
            S.append(Scn("tar2sqfs-" + ext, "tar2sqfs", T, os.path.join(base, "s14" + ext), prep_tarz,
                         lambda b, out: [T["tar2sqfs"], "-q", "-b", "4096", "-j", "1", "-c", "gzip", out], "image", packer=True,
                         stdin_file=lambda b, ext=ext: os.path.join(b, "in.tar." + ext)))
        for c in ("gzip", "zstd", "bzip2"):
            S.append(Scn("sqfs2tar-" + c, "sqfs2tar", T, os.path.join(base, "s15" + c), prep_img,
                         lambda b, out, c=c: [T["sqfs2tar"], "-c", c, os.path.join(b, "img.sqfs")], "stdout"))
        S.append(Scn("sqfs2tar-subdir-nohardlinks", "sqfs2tar", T, os.path.join(base, "s16"), prep_img,
                     lambda b, out: [T["sqfs2tar"], "-d", "d", "-L", os.path.join(b, "img.sqfs")], "stdout"))
        S.append(Scn("rdsquashfs-list", "rdsquashfs", T, os.path.join(base, "s17"), prep_img,
                     lambda b, out: [T["rdsquashfs"], "-l", "d", os.path.join(b, "img.sqfs")], "stdout"))
        S.append(Scn("rdsquashfs-stat", "rdsquashfs", T, os.path.join(base, "s18"), prep_img,
                     lambda b, out: [T["rdsquashfs"], "-s", "d/zero", os.path.join(b, "img.sqfs")], "stdout"))
    return S
