"""Reference stream codecs (independent of lib/xfrm): Python zlib/gzip, lzma, bz2 and ctypes on the system libzstd."""
import gzip, lzma, bz2, zlib, ctypes, ctypes.util

_z = None


def _zstd():
    global _z
    if _z is None:
        for n in ("libzstd.so.1", ctypes.util.find_library("zstd")):
            try:
                _z = ctypes.CDLL(n)
                break
            except Exception:
                _z = False
        if _z:
            _z.ZSTD_createCCtx.restype = ctypes.c_void_p
            _z.ZSTD_CCtx_setParameter.argtypes = [ctypes.c_void_p, ctypes.c_int, ctypes.c_int]
            _z.ZSTD_CCtx_setParameter.restype = ctypes.c_size_t
            _z.ZSTD_compress2.argtypes = [ctypes.c_void_p, ctypes.c_char_p, ctypes.c_size_t, ctypes.c_char_p, ctypes.c_size_t]
            _z.ZSTD_compress2.restype = ctypes.c_size_t
            _z.ZSTD_compressBound.argtypes = [ctypes.c_size_t]
            _z.ZSTD_compressBound.restype = ctypes.c_size_t
            _z.ZSTD_freeCCtx.argtypes = [ctypes.c_void_p]
            _z.ZSTD_isError.argtypes = [ctypes.c_size_t]
            _z.ZSTD_isError.restype = ctypes.c_uint
            _z.ZSTD_createDStream.restype = ctypes.c_void_p
            _z.ZSTD_freeDStream.argtypes = [ctypes.c_void_p]
            _z.ZSTD_decompressStream.argtypes = [ctypes.c_void_p, ctypes.c_void_p, ctypes.c_void_p]
            _z.ZSTD_decompressStream.restype = ctypes.c_size_t
    return _z


def zstd_available():
    return bool(_zstd())


def zstd_compress(data, level=3, checksum=False):
    z = _zstd()
    c = z.ZSTD_createCCtx()
    z.ZSTD_CCtx_setParameter(c, 100, level)          # ZSTD_c_compressionLevel
    z.ZSTD_CCtx_setParameter(c, 201, 1 if checksum else 0)   # ZSTD_c_checksumFlag
    bound = z.ZSTD_compressBound(len(data))
    buf = ctypes.create_string_buffer(bound)
    n = z.ZSTD_compress2(c, buf, bound, data, len(data))
    z.ZSTD_freeCCtx(c)
    if z.ZSTD_isError(n):
        raise RuntimeError("zstd compress failed")
    return buf.raw[:n]


class _Buf(ctypes.Structure):
    _fields_ = [("ptr", ctypes.c_void_p), ("size", ctypes.c_size_t), ("pos", ctypes.c_size_t)]


def zstd_decompress(data):
    """streaming decoder: handles concatenated frames; raises on error / truncated input"""
    z = _zstd()
    d = z.ZSTD_createDStream()
    src = ctypes.create_string_buffer(data, len(data))
    inb = _Buf(ctypes.cast(src, ctypes.c_void_p), len(data), 0)
    out = bytearray()
    chunk = ctypes.create_string_buffer(1 << 17)
    ret = 0
    try:
        while inb.pos < inb.size or ret != 0:
            outb = _Buf(ctypes.cast(chunk, ctypes.c_void_p), len(chunk), 0)
            before = inb.pos
            ret = z.ZSTD_decompressStream(d, ctypes.byref(outb), ctypes.byref(inb))
            if z.ZSTD_isError(ret):
                raise ValueError("zstd stream error")
            out += chunk.raw[:outb.pos]
            if inb.pos == before and outb.pos == 0:
                if ret != 0:
                    raise ValueError("zstd stream truncated")
                break
    finally:
        z.ZSTD_freeDStream(d)
    return bytes(out)


def compress(codec, data, level="default"):
    if codec == "gzip":
        lv = {"min": 1, "default": 6, "max": 9}[level]
        return gzip.compress(data, compresslevel=lv, mtime=0)
    if codec == "xz":
        lv = {"min": 0, "default": 6, "max": 9}[level]
        return lzma.compress(data, format=lzma.FORMAT_XZ, preset=lv)
    if codec == "bzip2":
        lv = {"min": 1, "default": 9, "max": 9}[level]
        return bz2.compress(data, lv)
    if codec == "zstd":
        return zstd_compress(data, {"min": 1, "default": 3, "max": 19}[level], checksum=False)
    if codec == "zstd-checksum":
        return zstd_compress(data, {"min": 1, "default": 3, "max": 19}[level], checksum=True)
    raise ValueError(codec)


def decompress(codec, data):
    """expand a (possibly multi-member) stream completely; raises on corruption / truncation"""
    if codec == "gzip":
        out = b""
        while data:
            d = zlib.decompressobj(16 + 15)
            out += d.decompress(data)
            if not d.eof:
                raise ValueError("gzip stream truncated")
            data = d.unused_data
        return out
    if codec == "xz":
        return lzma.decompress(data, format=lzma.FORMAT_XZ)
    if codec == "bzip2":
        return bz2.decompress(data)
    if codec.startswith("zstd"):
        return zstd_decompress(data)
    raise ValueError(codec)
