"""Base images for the hostile-image checks, built with MKIMG (uncompressed metadata)."""
from vlib.mkimg import Node, D, F, L, build
from vlib.treegen import content_pattern

B = 4096


def b0():
    root = D([(b"f", F(content_pattern("f", B + 100), tag="f"), None)], tag="root")
    return "b0-minimal", root, {}


def b1():
    ents = [(b"blk", Node("blk", 0o660, rdev=0x801, tag="blk"), None), (b"chr", Node("chr", 0o600, rdev=0x501, tag="chr"), None),
            (b"dir", D([(b"inner", F(b"inner file", tag="inner"), None)], tag="dir"), None),
            (b"fifo", Node("fifo", 0o600, tag="fifo"), None), (b"file", F(content_pattern("x", 2 * B + 17), uid=1000, gid=100, tag="file"), None),
            (b"link", L(b"file", tag="link"), None),
            # a file shorter than a block that is stored as a data block of its own (no tail-end packing): its single block word is an on-disk size < block size
            (b"nofrag", F(b"0123456789", frag=False, tag="nofrag"), None),
            (b"sock", Node("sock", 0o755, tag="sock"), None)]
    return "b1-all-basic-types", D(ents, tag="root"), {}


def b2():
    xa = {b"user.a": b"1", b"security.s": b"\x00bin"}
    xb = {b"user.long": b"L" * 200}
    ents = [(b"blk", Node("blk", 0o660, rdev=0x801, ext=True, xattrs=xa, tag="blk"), None), (b"chr", Node("chr", 0o600, rdev=0x501, ext=True, tag="chr"), None),
            (b"dir", D([(b"inner", F(b"inner file", ext=True, xattrs=xb, tag="inner"), None)], ext=True, xattrs=xa, tag="dir"), None),
            (b"fifo", Node("fifo", 0o600, ext=True, xattrs=xb, tag="fifo"), None),
            (b"file", F(content_pattern("x", 2 * B + 17), ext=True, xattrs=xa, tag="file"), None),
            (b"link", L(b"file", ext=True, xattrs=xb, tag="link"), None),
            (b"nofrag", F(b"abcdefghijklmnopqrstuvwxyz" * 20, frag=False, ext=True, tag="nofrag"), None),
            (b"sock", Node("sock", 0o755, ext=True, tag="sock"), None)]
    return "b2-all-extended-xattr-export", D(ents, ext=True, tag="root"), dict(export=True)


def b3():
    sparse = content_pattern("s", B) + bytes(B) + content_pattern("t", B) + b"tail"
    many = [(b"e%03d" % i, Node("fifo", 0o600), None) for i in range(300)]
    ents = [(b"big", D(many, ext=True, tag="big"), None), (b"frag1", F(b"small one", tag="frag1"), None), (b"frag2", F(b"small two", tag="frag2"), None),
            (b"sparse", F(sparse, ext=True, tag="sparse"), None)]
    return "b3-fragments-sparse-300-entries", D(ents, tag="root"), {}


def b4():
    """an extended directory with a directory index (3 headers, 2 index entries) next to a basic one"""
    six = [(b"n%d" % i, F(b"file %d" % i, tag="n%d" % i), None) for i in range(6)]
    ents = [(b"idx", D(six, ext=True, index_every=2, tag="idx"), None), (b"plain", D([(b"p", Node("fifo", 0o600, tag="p"), None)], tag="plain"), None)]
    return "b4-directory-index", D(ents, tag="root"), {}


def b5():
    """symlink targets and names around the limits of the tar header fields (100 / 155 / 255 bytes): the tar writer of sqfs2tar switches representation there"""
    def tgt(n):
        return (b"t" * 9 + b"/") * (n // 10) + b"e" * (n % 10)
    ents = [(b"l099", L(tgt(99), tag="l099"), None), (b"l100", L(tgt(100), tag="l100"), None), (b"l101", L(tgt(101), tag="l101"), None),
            (b"l300", L(tgt(300), ext=True, xattrs={b"user.a": b"1"}, tag="l300"), None), (b"l400", L(tgt(400), tag="l400"), None),
            (b"n" * 100, F(b"name of 100 bytes", tag="n100"), None), (b"p" * 255, Node("fifo", 0o600, tag="n255"), None),
            (b"tgtfile", F(b"x", tag="tgtfile"), None)]
    return "b5-long-symlink-targets-and-names", D(sorted(ents), tag="root"), {}


ALL = [b0, b1, b2, b4, b5, b3]
