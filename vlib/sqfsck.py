"""SQFSCK — independent SquashFS 4.0 decoder and validator, written from doc/format.adoc only.
Shares no code with libsquashfs. Decompression: Python zlib/lzma, ctypes on system liblz4/libzstd.

load(path_or_bytes) -> Image with
   .tree        path(bytes, b'' = root) -> node dict
   .violations  list of (rule, message)    (C03 invariants; each rule cites format.adoc)
   .notes       list of str                 (SHOULD clauses etc.)
Raises Corrupt if the image cannot be decoded at all.
"""
import struct, zlib, lzma, hashlib, ctypes, ctypes.util, os

MAGIC = 0x73717368
META = 8192
INVALID64 = 0xFFFFFFFFFFFFFFFF
INVALID32 = 0xFFFFFFFF

TYPES = {1: "dir", 2: "file", 3: "slink", 4: "blk", 5: "chr", 6: "fifo", 7: "sock"}
XPREFIX = {0: b"user.", 1: b"trusted.", 2: b"security."}


class Corrupt(Exception):
    pass


_lz4 = _zstd = None


def _load_libs():
    global _lz4, _zstd
    if _lz4 is None:
        for n in ("liblz4.so.1", ctypes.util.find_library("lz4")):
            try:
                _lz4 = ctypes.CDLL(n)
                break
            except Exception:
                _lz4 = False
        if _lz4:
            _lz4.LZ4_decompress_safe.argtypes = [ctypes.c_char_p, ctypes.c_char_p, ctypes.c_int, ctypes.c_int]
            _lz4.LZ4_decompress_safe.restype = ctypes.c_int
    if _zstd is None:
        for n in ("libzstd.so.1", ctypes.util.find_library("zstd")):
            try:
                _zstd = ctypes.CDLL(n)
                break
            except Exception:
                _zstd = False
        if _zstd:
            _zstd.ZSTD_decompress.argtypes = [ctypes.c_char_p, ctypes.c_size_t, ctypes.c_char_p, ctypes.c_size_t]
            _zstd.ZSTD_decompress.restype = ctypes.c_size_t
            _zstd.ZSTD_isError.argtypes = [ctypes.c_size_t]
            _zstd.ZSTD_isError.restype = ctypes.c_uint


def decompress(comp, data, maxout):
    if comp == 1:
        try:
            d = zlib.decompressobj()
            out = d.decompress(data, maxout + 1)
            if len(out) > maxout:
                raise Corrupt("gzip block expands beyond %d" % maxout)
            if not d.eof:
                raise Corrupt("gzip stream truncated")
            return out
        except zlib.error as e:
            raise Corrupt("gzip: %s" % e)
    if comp == 4:
        try:
            d = lzma.LZMADecompressor(format=lzma.FORMAT_XZ)
            out = d.decompress(data, maxout + 1)
            if len(out) > maxout:
                raise Corrupt("xz block expands beyond %d" % maxout)
            if not d.eof:
                raise Corrupt("xz stream truncated")
            return out
        except lzma.LZMAError as e:
            raise Corrupt("xz: %s" % e)
    if comp == 5:
        _load_libs()
        if not _lz4:
            raise Corrupt("liblz4 not available")
        buf = ctypes.create_string_buffer(maxout)
        n = _lz4.LZ4_decompress_safe(data, buf, len(data), maxout)
        if n < 0:
            raise Corrupt("lz4 error %d" % n)
        return buf.raw[:n]
    if comp == 6:
        _load_libs()
        if not _zstd:
            raise Corrupt("libzstd not available")
        buf = ctypes.create_string_buffer(maxout)
        n = _zstd.ZSTD_decompress(buf, maxout, data, len(data))
        if _zstd.ZSTD_isError(n):
            raise Corrupt("zstd error")
        return buf.raw[:n]
    if comp == 2:
        # LZMA1 as written by squashfs: 5 byte props + 8 byte size (LZMA alone header)
        try:
            d = lzma.LZMADecompressor(format=lzma.FORMAT_ALONE)
            out = d.decompress(data, maxout + 1)
            if len(out) > maxout:
                raise Corrupt("lzma block expands beyond %d" % maxout)
            return out
        except lzma.LZMAError as e:
            raise Corrupt("lzma: %s" % e)
    raise Corrupt("unsupported compressor id %d" % comp)


class Image:
    def __init__(self, data, want_content=True, max_file_bytes=1 << 33, dev_block=4096):
        self.dev_block = dev_block
        self.d = data
        self.violations = []
        self.notes = []
        self.meta_cache = {}
        self.want_content = want_content
        self.max_file_bytes = max_file_bytes
        self.tree = {}
        self.inodes = {}        # inode number -> node dict (first seen)
        self.inode_refs = {}    # inode number -> ref
        self.meta_blocks = {}   # table name -> set of absolute block positions visited
        self.data_blocks = []   # (start, ondisk, uncompressed_len, compressed, owner)
        self.frag_uncompressed = {}
        self._parse()

    # ---------------------------------------------------------------- helpers
    def bad(self, rule, msg):
        if len(self.violations) < 200:
            self.violations.append((rule, msg))

    def note(self, msg):
        if len(self.notes) < 100:
            self.notes.append(msg)

    def u(self, fmt, off):
        sz = struct.calcsize(fmt)
        if off < 0 or off + sz > len(self.d):
            raise Corrupt("read of %d bytes at %d beyond file (%d)" % (sz, off, len(self.d)))
        return struct.unpack_from(fmt, self.d, off)

    def meta_block(self, pos, table=None):
        """returns (payload, next_pos, ondisk, compressed)"""
        c = self.meta_cache.get(pos)
        if c is None:
            (hdr,) = self.u("<H", pos)
            size = hdr & 0x7FFF
            comp = not (hdr & 0x8000)
            if size > META:
                self.bad("meta.ondisk<=8KiB", "metadata block at %d has on-disk size %d > 8192" % (pos, size))
                raise Corrupt("metadata block at %d: size %d" % (pos, size))
            if size == 0:
                raise Corrupt("metadata block at %d has size 0" % pos)
            if pos + 2 + size > len(self.d):
                raise Corrupt("metadata block at %d extends beyond file" % pos)
            raw = self.d[pos + 2:pos + 2 + size]
            if comp:
                payload = decompress(self.sb["compressor"], raw, META)
                if len(payload) < size:
                    self.bad("meta.never-larger", "compressed metadata block at %d: on-disk %d > uncompressed %d" % (pos, size, len(payload)))
            else:
                payload = raw
            if len(payload) > META:
                self.bad("meta.uncompressed<=8KiB", "metadata block at %d unpacks to %d > 8192" % (pos, len(payload)))
            c = (payload, pos + 2 + size, size, comp)
            self.meta_cache[pos] = c
        if table is not None:
            self.meta_blocks.setdefault(table, set()).add(pos)
        return c

    class Stream:
        def __init__(self, img, base, block_rel, offset, table):
            self.img, self.base, self.table = img, base, table
            self.pos = base + block_rel
            self.off = offset
            p, self.next, _, _ = img.meta_block(self.pos, table)
            if offset > len(p):
                raise Corrupt("%s: offset %d beyond block payload %d" % (table, offset, len(p)))
            self.cur = p

        def read(self, n):
            out = b""
            while n > 0:
                if self.off >= len(self.cur):
                    if len(self.cur) != META:
                        # a short block that is not the last one of a chain
                        self.img.bad("meta.chain-full-blocks", "%s: entry crosses a metadata block of %d bytes (not 8192) at %d" % (self.table, len(self.cur), self.pos))
                    self.pos = self.next
                    self.cur, self.next, _, _ = self.img.meta_block(self.pos, self.table)
                    self.off = 0
                    if len(self.cur) == 0:
                        raise Corrupt("empty metadata block")
                k = min(n, len(self.cur) - self.off)
                out += self.cur[self.off:self.off + k]
                self.off += k
                n -= k
            return out

        def unpack(self, fmt):
            return struct.unpack(fmt, self.read(struct.calcsize(fmt)))

        def tell(self):
            """(block position relative to table base, offset) of the next byte"""
            if self.off >= len(self.cur) and len(self.cur) == META:
                return (self.next - self.base, 0)
            return (self.pos - self.base, self.off)

    # ---------------------------------------------------------------- superblock
    def _parse(self):
        d = self.d
        if len(d) < 96:
            raise Corrupt("file shorter than a superblock")
        f = struct.unpack_from("<IIIIIHHHHHHQQQQQQQQ", d, 0)
        keys = ["magic", "inode_count", "mtime", "block_size", "frag_count", "compressor", "block_log", "flags",
                "id_count", "vmajor", "vminor", "root", "bytes_used", "id_table", "xattr_table", "inode_table",
                "dir_table", "frag_table", "export_table"]
        sb = self.sb = dict(zip(keys, f))
        if sb["magic"] != MAGIC:
            raise Corrupt("bad magic")
        if sb["vmajor"] != 4 or sb["vminor"] != 0:
            raise Corrupt("version %d.%d" % (sb["vmajor"], sb["vminor"]))
        bs = sb["block_size"]
        if bs < 4096 or bs > 1048576 or bs & (bs - 1):
            raise Corrupt("block size %d" % bs)
        if (1 << sb["block_log"]) != bs:
            self.bad("super.block_log", "block_log %d disagrees with block_size %d" % (sb["block_log"], bs))
            raise Corrupt("block_log mismatch")
        if sb["compressor"] not in (1, 2, 3, 4, 5, 6):
            raise Corrupt("compressor id %d" % sb["compressor"])
        if sb["bytes_used"] > len(d):
            self.bad("super.bytes_used", "bytes_used %d > file size %d" % (sb["bytes_used"], len(d)))
            raise Corrupt("bytes_used beyond file")
        if len(d) % self.dev_block != 0:
            self.bad("super.padding", "file size %d is not a multiple of the device block size %d" % (len(d), self.dev_block))
        if len(d) - sb["bytes_used"] >= self.dev_block and len(d) % self.dev_block == 0:
            self.note("more than one device block of padding")
        if any(d[sb["bytes_used"]:]) :
            self.note("padding after bytes_used is not zero")
        if sb["id_count"] == 0:
            raise Corrupt("id_count is 0")
        # compressor options
        pos = 96
        self.comp_opts = None
        if sb["flags"] & 0x0400:
            (hdr,) = self.u("<H", 96)
            if not (hdr & 0x8000):
                self.bad("super.compopt-uncompressed", "compressor options block is not stored uncompressed")
            sz = hdr & 0x7FFF
            self.comp_opts = d[98:98 + sz]
            pos = 98 + sz
            if sb["compressor"] == 2:
                self.bad("super.compopt-lzma", "LZMA must not have compressor options")
        else:
            if sb["compressor"] == 5:
                self.bad("super.compopt-lz4", "LZ4 image without compressor options (flag 0x0400 unset)")
        self.data_start = pos
        # table order / bounds
        order = []
        for k in ("inode_table", "dir_table", "frag_table", "export_table", "id_table", "xattr_table"):
            v = sb[k]
            if v == INVALID64:
                if k in ("inode_table", "dir_table", "id_table"):
                    raise Corrupt("%s missing" % k)
                continue
            if v < pos or v > sb["bytes_used"]:
                self.bad("super.table-bounds", "%s at %d outside [%d, bytes_used=%d]" % (k, v, pos, sb["bytes_used"]))
                raise Corrupt("%s out of bounds" % k)
            order.append((k, v))
        if sb["inode_table"] > sb["dir_table"]:
            self.bad("super.table-order", "inode table after directory table")
        for k in ("frag_table", "export_table", "id_table", "xattr_table"):
            if sb[k] != INVALID64 and sb[k] < sb["dir_table"]:
                self.bad("super.table-order", "%s (%d) before directory table (%d)" % (k, sb[k], sb["dir_table"]))
        if sb["frag_count"] > 0 and sb["frag_table"] == INVALID64:
            self.bad("super.frag-table", "frag_count %d but no fragment table" % sb["frag_count"])
        if (sb["flags"] & 0x0080) and sb["export_table"] == INVALID64:
            self.note("EXPORTABLE flag set without export table")
        if not (sb["flags"] & 0x0080) and sb["export_table"] != INVALID64:
            self.note("export table present but EXPORTABLE flag unset")

        self._read_ids()
        self._read_frags()
        self._read_xattr_index()
        self._walk()
        self._read_export()
        self._check_global()

    # ---------------------------------------------------------------- lookup tables
    def _table(self, name, loc, count, esize):
        """generic lookup table: returns bytes of count*esize"""
        nblk = (count * esize + META - 1) // META
        out = b""
        upper = None
        for i in range(nblk):
            (p,) = self.u("<Q", loc + 8 * i)
            if p >= loc or p < self.data_start:
                self.bad("table.block-location", "%s table: metadata block %d at %d not before its location list at %d" % (name, i, p, loc))
                raise Corrupt("%s table block location" % name)
            payload, nxt, _, _ = self.meta_block(p, name)
            want = min(META, count * esize - i * META)
            if len(payload) < want:
                self.bad("table.block-size", "%s table: block %d holds %d bytes, need %d" % (name, i, len(payload), want))
                raise Corrupt("%s table short block" % name)
            if len(payload) > want:
                self.bad("table.block-size", "%s table: block %d holds %d bytes, expected exactly %d" % (name, i, len(payload), want))
            out += payload[:want]
        return out

    def _read_ids(self):
        sb = self.sb
        raw = self._table("id", sb["id_table"], sb["id_count"], 4)
        self.ids = list(struct.unpack("<%dI" % sb["id_count"], raw))
        if len(set(self.ids)) != len(self.ids):
            self.note("id table contains duplicates")

    def _read_frags(self):
        sb = self.sb
        self.frags = []
        if sb["frag_table"] == INVALID64 or sb["frag_count"] == 0:
            return
        raw = self._table("frag", sb["frag_table"], sb["frag_count"], 16)
        for i in range(sb["frag_count"]):
            start, size, unused = struct.unpack_from("<QII", raw, 16 * i)
            if unused != 0:
                self.note("fragment entry %d: unused field is %d" % (i, unused))
            ond = size & 0xFFFFFF
            comp = not (size & (1 << 24))
            if size & ~0x1FFFFFF:
                self.bad("frag.size-word", "fragment %d: size word 0x%x has unknown bits" % (i, size))
            if ond > sb["block_size"]:
                self.bad("block.ondisk<=block_size", "fragment block %d on-disk size %d > block size" % (i, ond))
            if start < self.data_start or start + ond > sb["inode_table"]:
                self.bad("frag.location", "fragment block %d [%d,+%d) outside the data area [%d,%d)" % (i, start, ond, self.data_start, sb["inode_table"]))
            self.frags.append((start, ond, comp))

    def frag_data(self, idx):
        c = self.frag_uncompressed.get(idx)
        if c is None:
            start, ond, comp = self.frags[idx]
            raw = self.d[start:start + ond]
            if len(raw) != ond:
                raise Corrupt("fragment block %d beyond file" % idx)
            if comp:
                c = decompress(self.sb["compressor"], raw, self.sb["block_size"])
                if ond > len(c):
                    self.bad("block.never-larger", "fragment block %d: stored %d bytes compressed > %d uncompressed" % (idx, ond, len(c)))
            else:
                c = raw
            self.frag_uncompressed[idx] = c
            self.data_blocks.append((start, ond, len(c), comp, "frag%d" % idx))
        return c

    def _read_xattr_index(self):
        sb = self.sb
        self.xattr_sets = None
        if sb["xattr_table"] == INVALID64:
            if not (sb["flags"] & 0x0200):
                self.note("no xattr table but NO_XATTRS flag unset")
            return
        kv_start, count, unused = self.u("<QII", sb["xattr_table"])
        self.xattr_kv_start = kv_start
        self.xattr_count = count
        nblk = (count * 16 + META - 1) // META
        # the location list must fit between the header and bytes_used
        if sb["xattr_table"] + 16 + 8 * nblk > sb["bytes_used"]:
            self.bad("xattr.locations", "xattr id table location list (%d entries) extends beyond bytes_used" % nblk)
            raise Corrupt("xattr location list")
        raw = b""
        for i in range(nblk):
            (p,) = self.u("<Q", sb["xattr_table"] + 16 + 8 * i)
            payload, _, _, _ = self.meta_block(p, "xattr_id")
            want = min(META, count * 16 - i * META)
            if len(payload) < want:
                raise Corrupt("xattr id table short block")
            if len(payload) > want:
                self.bad("table.block-size", "xattr id table: block %d holds %d bytes, expected %d" % (i, len(payload), want))
            raw += payload[:want]
        self.xattr_descs = [struct.unpack_from("<QII", raw, 16 * i) for i in range(count)]
        self.xattr_sets = {}

    def xattrs(self, idx):
        if idx == INVALID32:
            return {}
        if self.xattr_sets is None or idx >= self.xattr_count:
            self.bad("ref.xattr-index", "xattr index %d out of range" % idx)
            return {}
        if idx in self.xattr_sets:
            return self.xattr_sets[idx]
        ref, count, size = self.xattr_descs[idx]
        s = Image.Stream(self, self.xattr_kv_start, ref >> 16, ref & 0xFFFF, "xattr_kv")
        out = {}
        used = 0
        for _ in range(count):
            typ, nsz = s.unpack("<HH")
            name = s.read(nsz)
            (vsz,) = s.unpack("<I")
            val = s.read(vsz)
            used += 4 + nsz + 4 + vsz
            ool = bool(typ & 0x0100)
            pid = typ & 0xFF
            if pid not in XPREFIX:
                self.bad("xattr.prefix", "xattr set %d: unknown prefix id %d" % (idx, pid))
                key = b"?%d." % pid + name
            else:
                key = XPREFIX[pid] + name
            if ool:
                if vsz != 8:
                    self.bad("xattr.ool-size", "out-of-line value size %d != 8" % vsz)
                    continue
                (vref,) = struct.unpack("<Q", val)
                s2 = Image.Stream(self, self.xattr_kv_start, vref >> 16, vref & 0xFFFF, "xattr_kv")
                (vsz2,) = s2.unpack("<I")
                val = s2.read(vsz2)
            if key in out:
                self.note("xattr set %d: duplicate key %r" % (idx, key))
            out[key] = val
        if used != size:
            self.bad("xattr.size", "xattr set %d: descriptor size %d != actual %d" % (idx, size, used))
        self.xattr_sets[idx] = out
        return out

    def _read_export(self):
        sb = self.sb
        self.export = None
        if sb["export_table"] == INVALID64:
            return
        raw = self._table("export", sb["export_table"], sb["inode_count"], 8)
        self.export = list(struct.unpack("<%dQ" % sb["inode_count"], raw))
        for i, ref in enumerate(self.export):
            want = self.inode_refs.get(i + 1)
            if want is None:
                continue
            if ref != want:
                self.bad("export.entry", "export table entry %d is 0x%x, inode %d is at 0x%x" % (i, ref, i + 1, want))

    # ---------------------------------------------------------------- inodes
    def read_inode(self, ref):
        sb = self.sb
        blk, off = ref >> 16, ref & 0xFFFF
        if sb["inode_table"] + blk >= sb["dir_table"]:
            self.bad("ref.inode", "inode reference 0x%x points outside the inode table" % ref)
            raise Corrupt("inode ref out of table")
        s = Image.Stream(self, sb["inode_table"], blk, off, "inode")
        typ, perm, uidx, gidx, mtime, ino = s.unpack("<HHHHII")
        if typ < 1 or typ > 14:
            raise Corrupt("inode type %d" % typ)
        ext = typ > 7
        base = typ - 7 if ext else typ
        n = {"type": TYPES[base], "ext": ext, "mode": perm, "mtime": mtime, "ino": ino, "ref": ref, "xattr_idx": INVALID32}
        if perm & ~0o7777:
            self.bad("inode.perm", "inode %d: permission field 0x%x has type bits" % (ino, perm))
        for nm, ix in (("uid", uidx), ("gid", gidx)):
            if ix >= sb["id_count"]:
                self.bad("ref.id-index", "inode %d: %s index %d >= id_count %d" % (ino, nm, ix, sb["id_count"]))
                n[nm] = None
            else:
                n[nm] = self.ids[ix]
        if ino < 1 or ino > sb["inode_count"]:
            self.bad("inode.number-range", "inode number %d not in 1..%d" % (ino, sb["inode_count"]))
        if base == 1:
            if not ext:
                blk_idx, nlink, size, boff, parent = s.unpack("<IIHHI")
                icount = 0
            else:
                nlink, size, blk_idx, parent, icount, boff, xidx = s.unpack("<IIIIHHI")
                n["xattr_idx"] = xidx
            n.update(nlink=nlink, dsize=size, dblk=blk_idx, doff=boff, parent=parent, index=[])
            for _ in range(icount):
                index, start, nsz = s.unpack("<III")
                name = s.read(nsz + 1)
                n["index"].append((index, start, name))
        elif base == 2:
            if not ext:
                bstart, fidx, foff, fsize = s.unpack("<IIII")
                sparse, nlink = 0, 1
            else:
                bstart, fsize, sparse, nlink, fidx, foff, xidx = s.unpack("<QQQIIII")
                n["xattr_idx"] = xidx
            if fidx == INVALID32:
                nblk = (fsize + sb["block_size"] - 1) // sb["block_size"]
            else:
                nblk = fsize // sb["block_size"]
            if nblk > 1 << 22:
                raise Corrupt("file with %d blocks" % nblk)
            raw = s.read(4 * nblk)
            sizes = list(struct.unpack("<%dI" % nblk, raw))
            n.update(nlink=nlink, size=fsize, blocks_start=bstart, frag_idx=fidx, frag_off=foff, sparse=sparse, block_sizes=sizes)
        elif base == 3:
            nlink, tsz = s.unpack("<II")
            if tsz > (1 << 24):
                raise Corrupt("symlink target of %d bytes" % tsz)
            n.update(nlink=nlink, target=s.read(tsz))
            if ext:
                (n["xattr_idx"],) = s.unpack("<I")
        elif base in (4, 5):
            nlink, dev = s.unpack("<II")
            n.update(nlink=nlink, rdev=dev)
            if ext:
                (n["xattr_idx"],) = s.unpack("<I")
        else:
            (nlink,) = s.unpack("<I")
            n["nlink"] = nlink
            if ext:
                (n["xattr_idx"],) = s.unpack("<I")
        n["end"] = s.tell()
        n["xattrs"] = self.xattrs(n["xattr_idx"])
        return n

    def read_dir(self, n):
        """returns list of (name, ino, type_name, ref) and checks listing invariants"""
        sb = self.sb
        out = []
        size = n["dsize"]
        if size < 3:
            self.bad("dir.size", "directory inode %d: size field %d < 3" % (n["ino"], size))
            return out
        if size == 3:
            return out
        if sb["dir_table"] + n["dblk"] >= (sb["frag_table"] if sb["frag_table"] != INVALID64 else sb["bytes_used"]):
            pass
        s = Image.Stream(self, sb["dir_table"], n["dblk"], n["doff"], "dir")
        remaining = size - 3
        consumed = 0
        headers = []       # (byte offset from listing start, block rel pos of header, first name)
        prev = None
        while remaining > 0:
            if remaining < 12:
                self.bad("dir.size", "directory inode %d: %d stray bytes at the end of the listing" % (n["ino"], remaining))
                break
            hpos = s.tell()
            count, start, refino = s.unpack("<III")
            remaining -= 12
            hdr_off = consumed
            consumed += 12
            if count + 1 > 256:
                self.bad("dir.header<=256", "directory inode %d: header announces %d entries" % (n["ino"], count + 1))
                if count > 65536:
                    raise Corrupt("directory header count %d" % count)
            first = None
            for i in range(count + 1):
                if remaining < 8:
                    self.bad("dir.size", "directory inode %d: listing ends inside a run" % n["ino"])
                    remaining = 0
                    break
                off, delta, typ, nsz = s.unpack("<HhHH")
                if nsz > 255:
                    self.bad("dir.name<=256", "directory inode %d: name of %d bytes" % (n["ino"], nsz + 1))
                name = s.read(nsz + 1)
                remaining -= 8 + nsz + 1
                consumed += 8 + nsz + 1
                if first is None:
                    first = name
                if prev is not None and not (prev < name):
                    self.bad("dir.sorted", "directory inode %d: %r does not sort strictly after %r" % (n["ino"], name, prev))
                prev = name
                ino = refino + delta
                if typ < 1 or typ > 7:
                    self.bad("dir.entry-type", "directory inode %d: entry %r has type %d (must be a basic type)" % (n["ino"], name, typ))
                out.append((name, ino, TYPES.get(typ, "?"), (start << 16) | off))
            headers.append((hdr_off, hpos, first))
        if remaining < 0:
            self.bad("dir.size", "directory inode %d: listing overruns its size field by %d" % (n["ino"], -remaining))
        # index
        if n["index"]:
            hmap = {h[0]: h for h in headers}
            for index, start, name in n["index"]:
                h = hmap.get(index)
                if h is None:
                    self.bad("dir.index-points-at-header", "directory inode %d: index entry offset %d is not the offset of a header" % (n["ino"], index))
                    continue
                if h[1][0] != start:
                    self.bad("dir.index-block", "directory inode %d: index entry start %d, header is in block %d" % (n["ino"], start, h[1][0]))
                if h[2] != name:
                    self.bad("dir.index-name", "directory inode %d: index entry name %r, first name of the run is %r" % (n["ino"], name, h[2]))
        return out

    # ---------------------------------------------------------------- file contents
    def file_content(self, n):
        """fills n['sha'], n['layout'] ; checks block invariants"""
        sb = self.sb
        bs = sb["block_size"]
        size = n["size"]
        h = hashlib.sha256()
        pos = n["blocks_start"]
        layout = {"start": pos, "blocks": [], "frag": None}
        remaining = size
        zero = None
        nblocks = len(n["block_sizes"])
        sparse_bytes = 0
        if size > self.max_file_bytes:
            self.note("file inode %d: %d bytes, content not hashed" % (n["ino"], size))
        for i, w in enumerate(n["block_sizes"]):
            ond = w & 0xFFFFFF
            comp = not (w & (1 << 24))
            if w & ~0x1FFFFFF:
                self.bad("block.size-word", "inode %d block %d: size word 0x%x has unknown bits" % (n["ino"], i, w))
            want = min(bs, remaining)
            if ond > bs:
                self.bad("block.ondisk<=block_size", "inode %d block %d: on-disk size %d > block size %d" % (n["ino"], i, ond, bs))
            if ond == 0:
                if zero is None:
                    zero = bytes(bs)
                if size <= self.max_file_bytes and self.want_content:
                    h.update(zero[:want] if want != bs else zero)
                layout["blocks"].append((pos, 0, False, True))
                sparse_bytes += want
            else:
                if pos < self.data_start or pos + ond > sb["inode_table"]:
                    self.bad("block.location", "inode %d block %d [%d,+%d) outside the data area" % (n["ino"], i, pos, ond))
                    raise Corrupt("data block outside data area")
                raw = self.d[pos:pos + ond]
                if comp:
                    data = decompress(sb["compressor"], raw, bs)
                    if ond > len(data):
                        self.bad("block.never-larger", "inode %d block %d: stored %d bytes compressed > %d uncompressed" % (n["ino"], i, ond, len(data)))
                else:
                    data = raw
                if len(data) > want:
                    self.bad("block.unpacked-size", "inode %d block %d unpacks to %d bytes, only %d remain in the file" % (n["ino"], i, len(data), want))
                    data = data[:want]
                if len(data) < want:
                    data = data + bytes(want - len(data))
                if size <= self.max_file_bytes and self.want_content:
                    h.update(data)
                layout["blocks"].append((pos, ond, comp, False))
                self.data_blocks.append((pos, ond, len(data), comp, "ino%d.%d" % (n["ino"], i)))
                pos += ond
            remaining -= want
        if n["frag_idx"] != INVALID32:
            tail = size % bs
            fi = n["frag_idx"]
            if fi >= len(self.frags):
                self.bad("ref.frag-index", "inode %d: fragment index %d >= frag_count %d" % (n["ino"], fi, len(self.frags)))
                raise Corrupt("fragment index")
            fd = self.frag_data(fi)
            if tail == 0:
                self.bad("frag.tail-size", "inode %d has a fragment but size %d is a multiple of the block size" % (n["ino"], size))
            if n["frag_off"] + tail > len(fd):
                self.bad("frag.inside-block", "inode %d: fragment [%d,+%d) outside fragment block %d of %d bytes" % (n["ino"], n["frag_off"], tail, fi, len(fd)))
                raise Corrupt("fragment outside block")
            h.update(fd[n["frag_off"]:n["frag_off"] + tail])
            layout["frag"] = (fi, n["frag_off"], tail)
            remaining -= tail
        if remaining != 0:
            self.bad("file.size", "inode %d: blocks and fragment cover %d bytes of %d" % (n["ino"], size - remaining, size))
        n["sha"] = h.hexdigest() if (size <= self.max_file_bytes and self.want_content) else None
        n["layout"] = layout
        n["sparse_blocks_bytes"] = sparse_bytes

    # ---------------------------------------------------------------- tree walk
    def _walk(self):
        sb = self.sb
        root = self.read_inode(sb["root"])
        if root["type"] != "dir":
            raise Corrupt("root inode is not a directory")
        self.refcount = {}   # inode number -> number of directory entries referencing it
        self.nodes_by_ino = {}
        self.dir_children = {}
        seen_dirs = set()
        stack = [(b"", root, None)]
        self.nodes_by_ino[root["ino"]] = root
        self.inode_refs[root["ino"]] = sb["root"]
        nentries = 0
        while stack:
            path, n, parent_ino = stack.pop()
            self.tree[path] = n
            if n["type"] != "dir":
                continue
            if n["ino"] in seen_dirs:
                self.bad("dir.loop", "directory inode %d reachable twice (hard-linked directory or loop) at %r" % (n["ino"], path))
                continue
            seen_dirs.add(n["ino"])
            if parent_ino is not None and n["parent"] != parent_ino:
                self.bad("dir.parent", "directory %r (inode %d): parent field %d, actual parent inode %d" % (path, n["ino"], n["parent"], parent_ino))
            if parent_ino is None and n["parent"] != 0:
                if n["parent"] != sb["inode_count"] + 1:
                    self.note("root directory parent field is %d" % n["parent"])
            ents = self.read_dir(n)
            nsub = 0
            for name, ino, tname, ref in ents:
                nentries += 1
                if nentries > 2000000:
                    raise Corrupt("too many entries")
                if name in (b".", b"..") or b"/" in name or b"\0" in name:
                    self.bad("dir.name-sane", "directory %r: entry name %r" % (path, name))
                child = self.nodes_by_ino.get(ino)
                try:
                    c2 = self.read_inode(ref)
                except Corrupt as e:
                    self.bad("dir.entry-resolves", "directory %r: entry %r does not resolve: %s" % (path, name, e))
                    raise
                if c2["ino"] != ino:
                    self.bad("dir.entry-inode-number", "directory %r: entry %r says inode %d, inode at its reference has number %d" % (path, name, ino, c2["ino"]))
                if c2["type"] != tname:
                    self.bad("dir.entry-type-matches", "directory %r: entry %r has type %s, inode is %s" % (path, name, tname, c2["type"]))
                if child is None:
                    child = c2
                    self.nodes_by_ino[ino] = child
                    self.inode_refs[ino] = ref
                    if child["type"] == "file":
                        self.file_content(child)
                elif self.inode_refs.get(ino) != ref:
                    self.bad("inode.number-unique", "inode number %d used by two different inodes (0x%x, 0x%x)" % (ino, self.inode_refs.get(ino), ref))
                    child = c2
                    if child["type"] == "file":
                        self.file_content(child)
                self.refcount[ino] = self.refcount.get(ino, 0) + 1
                cpath = (path + b"/" + name) if path else name
                if child["type"] == "dir":
                    nsub += 1
                    stack.append((cpath, child, n["ino"]))
                else:
                    self.tree[cpath] = child
            n["nentries"] = len(ents)
            n["nsubdirs"] = nsub
            # link count of a directory: "a directory with N entries has at least N + 2 link count"
            if n["nlink"] < len(ents) + 2:
                self.bad("dir.nlink", "directory %r: link count %d < entries %d + 2" % (path, n["nlink"], len(ents)))
            elif n["nlink"] != len(ents) + 2 and n["nlink"] != nsub + 2:
                self.note("directory %r: link count %d (entries %d, subdirs %d)" % (path, n["nlink"], len(ents), nsub))

    def _check_global(self):
        sb = self.sb
        nums = sorted(self.nodes_by_ino)
        if nums != list(range(1, sb["inode_count"] + 1)):
            missing = sorted(set(range(1, sb["inode_count"] + 1)) - set(nums))[:5]
            extra = [x for x in nums if x < 1 or x > sb["inode_count"]][:5]
            self.bad("inode.numbers=1..N", "reachable inode numbers are not exactly 1..%d (count %d, missing %s, out of range %s)" % (
                sb["inode_count"], len(nums), missing, extra))
        for ino, n in self.nodes_by_ino.items():
            if n["type"] == "dir":
                continue
            rc = self.refcount.get(ino, 0)
            if n["nlink"] != rc:
                self.bad("inode.nlink", "inode %d (%s): link count %d, referenced by %d entries" % (ino, n["type"], n["nlink"], rc))
        # used ids
        used = set()
        for n in self.nodes_by_ino.values():
            used.add(n.get("uid"))
            used.add(n.get("gid"))
        used.discard(None)
        unused = [i for i in self.ids if i not in used]
        if unused:
            self.note("id table holds %d ids no inode uses" % len(unused))
        # metadata chains: gap-free within each table
        for tbl, base, end in (("inode", sb["inode_table"], sb["dir_table"]),
                               ("dir", sb["dir_table"], None)):
            poss = sorted(self.meta_blocks.get(tbl, ()))
            if not poss:
                continue
            if tbl == "inode" and poss[0] != base:
                self.note("first visited inode block is not the table start")
            # walk the whole table from its start: blocks must chain gap-free up to the end
            if end is None:
                cands = [sb[k] for k in ("frag_table", "export_table", "id_table", "xattr_table") if sb[k] != INVALID64]
                # the directory table ends where the next table's first metadata block starts; unknown exactly
                continue
            p = base
            guard = 0
            while p < end and guard < 1 << 20:
                try:
                    _, nxt, _, _ = self.meta_block(p)
                except Corrupt as e:
                    self.bad("meta.chain-gap-free", "%s table: walking blocks from the table start fails at %d: %s" % (tbl, p, e))
                    break
                p = nxt
                guard += 1
            if p != end:
                self.bad("meta.chain-gap-free", "%s table: metadata blocks chained from %d end at %d, next table starts at %d" % (tbl, base, p, end))
        # data blocks of one file contiguous: by construction of the decoder (location = start + sum sizes) – checked via bounds
        # xattr id table location list length == ceil(n/512): the list is followed by nothing we can measure exactly,
        # but bytes_used must cover exactly the list when the xattr table is the last thing in the image
        if sb["xattr_table"] != INVALID64:
            nblk = (self.xattr_count * 16 + META - 1) // META
            endpos = sb["xattr_table"] + 16 + 8 * nblk
            if sb["xattr_table"] == max(v for k, v in sb.items() if k.endswith("_table") and v != INVALID64):
                if endpos != sb["bytes_used"]:
                    self.bad("xattr.locations-length", "xattr id table with %d sets needs %d location entries (ends at %d) but bytes_used is %d" % (
                        self.xattr_count, nblk, endpos, sb["bytes_used"]))


def load(src, **kw):
    if isinstance(src, (bytes, bytearray)):
        data = bytes(src)
    else:
        with open(src, "rb") as f:
            data = f.read()
    return Image(data, **kw)


def canon_tree(img, with_layout=False, with_mtime=True, with_ino=False):
    """Comparable representation: path -> tuple/dict of attributes. Hard-link groups are added as 'links'."""
    groups = {}
    for p, n in img.tree.items():
        groups.setdefault(n["ino"], []).append(p)
    out = {}
    for p, n in img.tree.items():
        e = {"type": n["type"], "mode": n["mode"], "uid": n["uid"], "gid": n["gid"], "xattrs": dict(n["xattrs"])}
        if with_mtime:
            e["mtime"] = n["mtime"]
        if with_ino:
            e["ino"] = n["ino"]
        if n["type"] == "file":
            e["size"] = n["size"]
            e["sha"] = n["sha"]
        elif n["type"] == "slink":
            e["target"] = n["target"]
        elif n["type"] in ("chr", "blk"):
            e["rdev"] = n["rdev"]
        if n["type"] != "dir":
            g = sorted(groups[n["ino"]])
            if len(g) > 1:
                e["links"] = tuple(g)
        if with_layout and n["type"] == "file":
            e["layout"] = n["layout"]
        out[p] = e
    return out


if __name__ == "__main__":
    import sys
    img = load(sys.argv[1])
    for p in sorted(img.tree):
        n = img.tree[p]
        print(p.decode("latin1") or "/", n["type"], oct(n["mode"]), n["uid"], n["gid"], n["mtime"], "ino", n["ino"], "nlink", n["nlink"],
              n.get("size", ""), (n.get("sha") or "")[:12], n.get("target", ""), n.get("rdev", ""), n["xattrs"] or "")
    for v in img.violations:
        print("VIOLATION", v)
    for v in img.notes:
        print("note", v)
