"""Runner, evidence, known-findings and tool-execution helpers shared by all checks."""
import os, sys, json, time, subprocess, shutil, hashlib, signal, argparse, traceback
import multiprocessing as mp

VERIF = os.path.dirname(os.path.dirname(os.path.abspath(__file__)))
sys.path.insert(0, VERIF)
from vlib import build  # noqa

NPROC = int(os.environ.get("VERIF_JOBS", "16"))

ASAN_ENV = "allocator_may_return_null=1:detect_leaks=0:abort_on_error=0:exitcode=99:handle_abort=1:symbolize=1:max_allocation_size_mb=3000"

CLEAN_ENV = {
    "PATH": "/usr/sbin:/usr/bin:/sbin:/bin",
    "TZ": "UTC", "LC_ALL": "C", "HOME": "/nonexistent",
    "ASAN_OPTIONS": ASAN_ENV,
    "ASAN_SYMBOLIZER_PATH": shutil.which("llvm-symbolizer") or "/usr/bin/llvm-symbolizer-14",
    "TSAN_OPTIONS": "exitcode=98:halt_on_error=1",
}


def sha(b):
    return hashlib.sha256(b).hexdigest()


def sha_file(p):
    h = hashlib.sha256()
    with open(p, "rb") as f:
        while True:
            b = f.read(1 << 20)
            if not b:
                break
            h.update(b)
    return h.hexdigest()


class ToolResult:
    __slots__ = ("rc", "out", "err", "timeout", "wall")

    def __init__(self, rc, out, err, timeout, wall):
        self.rc, self.out, self.err, self.timeout, self.wall = rc, out, err, timeout, wall

    @property
    def crashed(self):
        """fatal signal, sanitizer report, or assert abort"""
        if self.timeout:
            return False
        if self.rc < 0 or self.rc == 99 or self.rc == 98 or self.rc == 134:
            return True
        e = self.err
        # "WARNING: AddressSanitizer failed to allocate" (allocator_may_return_null) is not an error report
        return b"ERROR: AddressSanitizer" in e or b"WARNING: ThreadSanitizer" in e or b"ERROR: LeakSanitizer" in e or b"AddressSanitizer:DEADLYSIGNAL" in e

    def crash_fingerprint(self):
        e = self.err.decode("latin1", "replace")
        kind = "signal%d" % (-self.rc) if self.rc < 0 else "abort"
        import re
        m = re.search(r"ERROR: AddressSanitizer: ([\w-]+)", e)
        if m:
            kind = m.group(1)
            if kind == "attempting":          # "attempting double-free" / "attempting free on address which was not malloc()-ed"
                m1 = re.search(r"ERROR: AddressSanitizer: attempting ([\w-]+)", e)
                kind = "bad-free" if not m1 else ("double-free" if m1.group(1) == "double-free" else "bad-free")
        m2 = re.search(r"WARNING: ThreadSanitizer: ([\w ]+)", e)
        if m2:
            kind = "tsan:" + m2.group(1).strip()
        fn = "?"
        for fm in re.finditer(r"#\d+ 0x[0-9a-f]+ in (\S+) (\S+)", e):
            f, loc = fm.group(1), fm.group(2)
            if "/repo/" in loc or build.REPO in loc:
                fn = f
                break
        if "Assertion" in e:
            m3 = re.search(r"Assertion `(.*?)' failed", e)
            kind = "assert"
            if m3:
                fn = m3.group(1)[:60]
        return "%s|%s" % (kind, fn)


def run_tool(argv, stdin=None, env=None, timeout=20.0, cwd=None, stdin_file=None, pass_fds=()):
    e = dict(CLEAN_ENV)
    if env:
        e.update(env)
    t0 = time.time()
    fin = None
    try:
        if stdin_file is not None:
            fin = open(stdin_file, "rb")
        p = subprocess.Popen(argv, stdin=fin if fin else (subprocess.PIPE if stdin is not None else subprocess.DEVNULL),
                             stdout=subprocess.PIPE, stderr=subprocess.PIPE, env=e, cwd=cwd,
                             start_new_session=True, pass_fds=pass_fds)
        try:
            out, err = p.communicate(stdin, timeout=timeout)
            return ToolResult(p.returncode, out, err, False, time.time() - t0)
        except subprocess.TimeoutExpired:
            try:
                os.killpg(p.pid, signal.SIGKILL)
            except ProcessLookupError:
                pass
            out, err = p.communicate()
            return ToolResult(-9, out, err, True, time.time() - t0)
    finally:
        if fin:
            fin.close()


def run_tool_hangcheck(argv, timeout=20.0, **kw):
    """Hang rule: a timeout is re-run alone with a 10x longer limit before being believed."""
    r = run_tool(argv, timeout=timeout, **kw)
    if r.timeout:
        r2 = run_tool(argv, timeout=timeout * 10, **kw)
        return r2
    return r


def pmap(fn, items, procs=None, chunksize=1, init=None, initargs=()):
    """Ordered parallel map over worker processes (fork)."""
    procs = procs or NPROC
    items = list(items)
    if not items:
        return []
    if procs == 1 or len(items) == 1:
        if init:
            init(*initargs)
        return [fn(i) for i in items]
    ctx = mp.get_context("fork")
    with ctx.Pool(procs, initializer=init, initargs=initargs) as pool:
        return pool.map(fn, items, chunksize)


def pimap(fn, items, procs=None, chunksize=1):
    """Unordered lazy parallel map (generator); pool closed when exhausted."""
    procs = procs or NPROC
    ctx = mp.get_context("fork")
    pool = ctx.Pool(procs)
    try:
        for r in pool.imap_unordered(fn, items, chunksize):
            yield r
    finally:
        pool.terminate()
        pool.join()


def load_findings():
    p = os.path.join(VERIF, "known_findings.json")
    if not os.path.exists(p):
        return []
    return json.load(open(p)).get("findings", [])


class CheckRun:
    """Context for one check invocation: tier, deadline, violations, evidence."""

    def __init__(self, prop, level, default_budget=(240, 1500), argv=None):
        ap = argparse.ArgumentParser()
        ap.add_argument("--tier", default=os.environ.get("VERIF_TIER", "quick"))
        ap.add_argument("--replay", default=None)
        ap.add_argument("--budget", type=float, default=None)
        a, self.rest = ap.parse_known_args(argv)
        self.prop = prop
        self.level = level
        self.tier = a.tier if a.tier in ("quick", "thorough") else "quick"
        self.replay = a.replay
        self.seed = int(os.environ.get("VERIF_SEED", "0") or 0)
        self.t0 = time.time()
        b = a.budget or (default_budget[0] if self.tier == "quick" else default_budget[1])
        self.deadline = self.t0 + b
        self.coverage = {"evaluations": 0, "distinct_nontrivial": 0, "rule": "", "samples": [], "exhaustive": True}
        self.assumptions = []
        self.groups = {}     # fingerprint -> dict(count, what, replay)
        self.notes = []
        self.known = [f for f in load_findings() if f.get("property") == prop]
        self.replay_root = os.path.join(VERIF, "replay", prop)
        self._n = 0
        self.harness_error = None

    @property
    def quick(self):
        return self.tier == "quick"

    def time_left(self):
        return self.deadline - time.time()

    def expired(self):
        return time.time() > self.deadline

    def cap(self, what):
        """Record that a cap/deadline was hit: run is no longer exhaustive."""
        self.coverage["exhaustive"] = False
        self.coverage.setdefault("caps_hit", []).append(what)

    def note(self, s):
        if len(self.notes) < 200:
            self.notes.append(s)

    def sample(self, s, limit=6):
        if len(self.coverage["samples"]) < limit:
            self.coverage["samples"].append(s)

    def violation(self, fingerprint, what, files=None, replay_sh=None):
        """Record a violation. files: dict name -> bytes|str written into the artefact dir.
        Violations are grouped by fingerprint; the first instance's artefact is kept."""
        g = self.groups.get(fingerprint)
        if g:
            g["count"] += 1
            return g["replay"]
        self._n += 1
        d = os.path.join(self.replay_root, "%03d" % self._n)
        shutil.rmtree(d, ignore_errors=True)
        os.makedirs(d, exist_ok=True)
        for name, data in (files or {}).items():
            p = os.path.join(d, name)
            os.makedirs(os.path.dirname(p), exist_ok=True)
            with open(p, "wb") as f:
                f.write(data if isinstance(data, bytes) else str(data).encode())
        with open(os.path.join(d, "what.txt"), "w") as f:
            f.write("property=%s\nfingerprint=%s\n%s\n" % (self.prop, fingerprint, what))
        if replay_sh:
            p = os.path.join(d, "replay.sh")
            with open(p, "w") as f:
                f.write("#!/bin/sh\n# replays this violation without the explorer\ncd \"$(dirname \"$0\")\"\n" + replay_sh + "\n")
            os.chmod(p, 0o755)
        self.groups[fingerprint] = {"count": 1, "what": what, "replay": d}
        return d

    def is_known(self, fingerprint):
        for f in self.known:
            if f.get("status") == "open" and f.get("fingerprint") == fingerprint:
                return f
        return None

    def finish(self):
        if os.path.isdir(self.replay_root) and not self.groups:
            shutil.rmtree(self.replay_root, ignore_errors=True)
        nviol = 0
        lines = []
        known_hit = []
        for fp, g in self.groups.items():
            k = self.is_known(fp)
            if k:
                lines.append("KNOWN-FINDING: property=%s %s (%d instances; %s)" % (self.prop, fp, g["count"], k.get("what", "")))
                known_hit.append(fp)
                shutil.rmtree(g["replay"], ignore_errors=True)
            else:
                nviol += 1
                lines.append("VIOLATION property=%s replay=%s" % (self.prop, g["replay"]))
                lines.append("  fingerprint: %s (%d instances)\n  %s" % (fp, g["count"], g["what"].replace("\n", "\n  ")))
        # open findings that were not hit are still printed (they are listed, and the tree is unchanged)
        cov = self.coverage
        if self.notes:
            cov["notes"] = self.notes
        if known_hit:
            cov["known_findings_hit"] = known_hit
        ev = {
            "property_id": self.prop, "tier": self.tier, "seed": self.seed, "level": self.level,
            "coverage": cov, "assumptions": self.assumptions,
            "wall_s": round(time.time() - self.t0, 2), "violations": nviol,
            "repo_digest": build.tree_digest(),
        }
        os.makedirs(os.path.join(VERIF, "evidence"), exist_ok=True)
        with open(os.path.join(VERIF, "evidence", self.prop + ".json"), "w") as f:
            json.dump(ev, f, indent=1, default=str)
            f.write("\n")
        if self.tier == "thorough" and not os.environ.get("VERIF_REPO"):
            # the last thorough run is kept next to the per-property evidence file (which the next quick run overwrites)
            os.makedirs(os.path.join(VERIF, "evidence_thorough"), exist_ok=True)
            with open(os.path.join(VERIF, "evidence_thorough", self.prop + ".json"), "w") as f:
                json.dump(ev, f, indent=1, default=str)
                f.write("\n")
        for l in lines:
            print(l)
        print("%s tier=%s evaluations=%s distinct=%s exhaustive=%s wall=%.1fs violations=%d" % (
            self.prop, self.tier, cov.get("evaluations"), cov.get("distinct_nontrivial"),
            cov.get("exhaustive"), time.time() - self.t0, nviol))
        sys.stdout.flush()
        return 1 if nviol else 0


def main_wrapper(fn):
    """Run a check body; internal errors of the machinery exit 2 without a VIOLATION line."""
    try:
        rc = fn()
    except build.BuildError as e:
        print("HARNESS-ERROR (build): %s" % e, file=sys.stderr)
        rc = 2
    except Exception:
        traceback.print_exc()
        print("HARNESS-ERROR", file=sys.stderr)
        rc = 2
    sys.exit(rc)
