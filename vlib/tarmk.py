"""tarmk — own tar *writer* with byte-level control over the dialect, plus the semantic model
(the tree tar2sqfs is documented to produce). Shares nothing with lib/tar.

Entry: dict(path bytes, type file|dir|slink|link|chr|blk|fifo, mode, uid, gid, mtime, content, target, dev (maj,min),
            xattrs {key: val}, holes (list of (offset, length) of holes inside content; content holds the full expanded bytes))
"""
import struct, hashlib, base64, urllib.parse

TYPEFLAG = {"file": b"0", "link": b"1", "slink": b"2", "chr": b"3", "blk": b"4", "dir": b"5", "fifo": b"6"}


def octal(v, width):
    """classic octal field: width-1 digits + NUL (or width digits without terminator when needed)"""
    s = b"%0*o" % (width - 1, v)
    if len(s) <= width - 1:
        return s + b"\0"
    if len(s) == width:
        return s
    raise ValueError("octal overflow")


def base256(v, width):
    if v < 0:
        v += 1 << (8 * width)
        b = v.to_bytes(width, "big")
        return bytes([b[0] | 0x80]) + b[1:] if b[0] & 0x80 else b   # negative: leading 0xFF bytes
    b = v.to_bytes(width, "big")
    return bytes([b[0] | 0x80]) + b[1:]


def num(v, width, style):
    if style == "base256" or v < 0 or v >= 8 ** (width - 1):
        if style == "octal-only":
            raise ValueError("number does not fit")
        return base256(v, width)
    return octal(v, width)


def header(name, mode=0o644, uid=0, gid=0, size=0, mtime=0, typeflag=b"0", linkname=b"", magic=b"ustar\x0000", prefix=b"",
           devmajor=0, devminor=0, style="octal", uname=b"", gname=b"", tail=None, bad_checksum=False):
    h = bytearray(512)
    h[0:len(name[:100])] = name[:100]
    h[100:108] = num(mode, 8, style)
    h[108:116] = num(uid, 8, style)
    h[116:124] = num(gid, 8, style)
    h[124:136] = num(size, 12, style)
    h[136:148] = num(mtime, 12, style)
    h[156:157] = typeflag
    h[157:157 + len(linkname[:100])] = linkname[:100]
    h[257:265] = magic
    h[265:265 + len(uname)] = uname
    h[297:297 + len(gname)] = gname
    if magic != bytes(8):
        h[329:337] = num(devmajor, 8, style)
        h[337:345] = num(devminor, 8, style)
    if tail is not None:
        h[345:345 + len(tail)] = tail
    else:
        h[345:345 + len(prefix[:155])] = prefix[:155]
    h[148:156] = b" " * 8
    cs = sum(h) + (1 if bad_checksum else 0)
    h[148:156] = b"%06o\0 " % cs
    return bytes(h)


def pad(data):
    return data + bytes((-len(data)) % 512)


def pax_record(key, value):
    body = b" " + key + b"=" + value + b"\n"
    n = len(body) + 1
    while len(str(n)) + len(body) != n:
        n = len(str(n)) + len(body)
    return str(n).encode() + body


def pax_header(records, name=b"pax/hdr", typeflag=b"x", magic=b"ustar\x0000"):
    payload = b"".join(pax_record(k, v) for k, v in records)
    return header(name, size=len(payload), typeflag=typeflag, magic=magic) + pad(payload)


def split_ustar(path):
    """name/prefix split for POSIX ustar, or None"""
    if len(path) <= 100:
        return path, b""
    for i in range(len(path)):
        if path[i:i + 1] == b"/" and i <= 155 and len(path) - i - 1 <= 100 and i > 0:
            return path[i + 1:], path[:i]
    return None


def data_chunks(e):
    """(stored bytes, map) for a sparse entry: map = list of (offset, length) of data regions"""
    content = e.get("content", b"")
    holes = sorted(e.get("holes") or [])
    regions = []
    pos = 0
    for off, ln in holes:
        if off > pos:
            regions.append((pos, off - pos))
        pos = off + ln
    if pos < len(content):
        regions.append((pos, len(content) - pos))
    if holes and holes[-1][0] + holes[-1][1] == len(content):
        regions.append((len(content), 0))          # trailing hole: terminating zero-length region
    stored = b"".join(content[o:o + l] for o, l in regions)
    return stored, regions


def encode_entry(e, dialect="ustar", sparse=None, xattr_style="schily", style="octal", long_via=None):
    """returns bytes for one entry. dialect: v7 | ustar | gnu | pax.  sparse: None | old | 0.0 | 0.1 | 1.0"""
    t = e["type"]
    path = e["path"]
    if t == "dir" and not path.endswith(b"/") and e.get("dir_slash", True):
        path = path + b"/"
    content = e.get("content", b"") if t == "file" else b""
    target = e.get("target", b"") if t in ("slink", "link") else b""
    mode, uid, gid, mtime = e.get("mode", 0o644), e.get("uid", 0), e.get("gid", 0), e.get("mtime", 0)
    maj, mi = e.get("dev", (0, 0))
    tf = TYPEFLAG[t]
    out = b""
    kw = dict(mode=mode, uid=uid, gid=gid, mtime=mtime, devmajor=maj, devminor=mi)
    if dialect == "v7":
        if t not in ("file", "dir", "slink", "link"):
            raise ValueError("v7 cannot express %s" % t)
        if len(path) > 100 or len(target) > 100:
            raise ValueError("v7 name too long")
        return header(path, size=len(content), typeflag=(b"\0" if t == "file" and e.get("v7_nul_type") else tf), linkname=target, magic=bytes(8),
                      style="octal-only", mode=mode, uid=uid, gid=gid, mtime=mtime) + pad(content)
    if dialect == "ustar":
        sp = split_ustar(path)
        if sp is None or len(target) > 100:
            raise ValueError("ustar name too long")
        return header(sp[0], size=len(content), typeflag=tf, linkname=target, prefix=sp[1], style="octal-only", **kw) + pad(content)
    if dialect == "gnu":
        magic = b"ustar  \0"
        if sparse == "old" and t == "file":
            stored, regions = data_chunks(e)
            tail = bytearray(167)
            # atime ctime offset longnames unused | 4 sparse | isextended | realsize
            sp = bytearray()
            for o, l in regions[:4]:
                sp += octal(o, 12) + octal(l, 12)
            tail[41:41 + len(sp)] = sp
            rest = regions[4:]
            tail[137] = 1 if rest else 0
            tail[138:150] = octal(len(content), 12)
            if len(path) > 100:
                out += header(b"././@LongLink", size=len(path) + 1, typeflag=b"L", magic=magic) + pad(path + b"\0")
            out += header(path, size=len(stored), typeflag=b"S", magic=magic, tail=bytes(tail), style=style, **kw)
            while rest:
                ext = bytearray(512)
                chunk, rest = rest[:21], rest[21:]
                for i, (o, l) in enumerate(chunk):
                    ext[i * 24:i * 24 + 24] = octal(o, 12) + octal(l, 12)
                ext[504] = 1 if rest else 0
                out += bytes(ext)
            return out + pad(stored)
        if len(target) > 100 or long_via == "K":
            out += header(b"././@LongLink", size=len(target) + 1, typeflag=b"K", magic=magic) + pad(target + b"\0")
        if len(path) > 100 or long_via == "L":
            out += header(b"././@LongLink", size=len(path) + 1, typeflag=b"L", magic=magic) + pad(path + b"\0")
        return out + header(path, size=len(content), typeflag=tf, linkname=target, magic=magic, style=style, **kw) + pad(content)
    if dialect == "pax":
        recs = []
        hdr_kw = dict(kw)
        name, prefix = path[:100], b""
        sp = split_ustar(path)
        if sp is None or e.get("pax_path"):
            recs.append((b"path", path))
        else:
            name, prefix = sp
        if len(target) > 100 or e.get("pax_linkpath"):
            recs.append((b"linkpath", target))
        for fld in ("uid", "gid"):
            if hdr_kw[fld] >= 8 ** 7 or e.get("pax_ids"):
                recs.append((fld.encode(), b"%d" % hdr_kw[fld]))
                hdr_kw[fld] = 0
        if mtime < 0 or mtime >= 8 ** 11 or e.get("pax_mtime") is not None:
            recs.append((b"mtime", e.get("pax_mtime") or (b"%d" % mtime)))
            hdr_kw["mtime"] = 0
        for k, v in sorted((e.get("xattrs") or {}).items()):
            if xattr_style == "schily":
                recs.append((b"SCHILY.xattr." + k, v))
            else:
                recs.append((b"LIBARCHIVE.xattr." + urllib.parse.quote_from_bytes(k, safe="").encode(), base64.b64encode(v)))
        stored = content
        hname = name
        if sparse in ("0.0", "0.1", "1.0") and t == "file":
            stored, regions = data_chunks(e)
            if sparse == "0.0":
                recs.append((b"GNU.sparse.size", b"%d" % len(content)))
                recs.append((b"GNU.sparse.numblocks", b"%d" % len(regions)))
                for o, l in regions:
                    recs.append((b"GNU.sparse.offset", b"%d" % o))
                    recs.append((b"GNU.sparse.numbytes", b"%d" % l))
            elif sparse == "0.1":
                recs.append((b"GNU.sparse.size", b"%d" % len(content)))
                recs.append((b"GNU.sparse.numblocks", b"%d" % len(regions)))
                recs.append((b"GNU.sparse.name", path))
                recs.append((b"GNU.sparse.map", b",".join(b"%d,%d" % r for r in regions)))
                hname, prefix = b"GNUSparseFile.0/" + path.split(b"/")[-1][:80], b""
            else:
                recs.append((b"GNU.sparse.major", b"1"))
                recs.append((b"GNU.sparse.minor", b"0"))
                recs.append((b"GNU.sparse.name", path))
                recs.append((b"GNU.sparse.realsize", b"%d" % len(content)))
                m = b"%d\n" % len(regions) + b"".join(b"%d\n%d\n" % r for r in regions)
                stored = pad(m) + stored
                hname, prefix = b"GNUSparseFile.0/" + path.split(b"/")[-1][:80], b""
            if len(stored) >= 8 ** 11:
                recs.append((b"size", b"%d" % len(stored)))
        if recs:
            out += pax_header(recs, name=b"PaxHeaders/" + path.split(b"/")[-1][:80])
        return out + header(hname, size=len(stored), typeflag=tf, linkname=target[:100], prefix=prefix, **hdr_kw) + pad(stored)
    raise ValueError(dialect)


def archive(entries, dialect="ustar", end=True, **kw):
    out = b""
    for e in entries:
        d = e.get("dialect", dialect)
        out += encode_entry(e, dialect=d, sparse=e.get("sparse"), xattr_style=e.get("xattr_style", "schily"), style=e.get("style", "octal"),
                            long_via=e.get("long_via"))
    if end:
        out += bytes(1024)
    return out


# ---------------------------------------------------------------------------- the model
def canon(p):
    parts = [c for c in p.split(b"/") if c not in (b"", b".")]
    if b".." in parts:
        return None
    return b"/".join(parts)


def clamp(t):
    return 0 if t < 0 else (0xFFFFFFFF if t > 0xFFFFFFFF else t)


def expected_tree(entries, defaults=None, keep_time=True, with_xattrs=True, root_becomes=None):
    """tree tar2sqfs is documented to build (same shape as sqfsck.canon_tree). root mtime is None (= not compared) when the
    archive carries an entry for the root."""
    d = dict(uid=0, gid=0, mode=0o755, mtime=0)
    if defaults:
        d.update(defaults)
    out = {b"": dict(type="dir", mode=d["mode"], uid=d["uid"], gid=d["gid"], mtime=d["mtime"], xattrs={})}
    links = {}
    explicit = set()
    for e in entries:
        p = canon(e["path"])
        if p is None:
            return None
        if root_becomes is not None:
            rb = canon(root_becomes)
            if p == rb:
                p = b""
            elif p.startswith(rb + b"/"):
                p = p[len(rb) + 1:]
            else:
                continue
        xa = {}
        if with_xattrs:
            for k, v in (e.get("xattrs") or {}).items():
                if k.startswith((b"user.", b"trusted.", b"security.")):
                    xa[k] = v
        mt = clamp(e.get("mtime", 0)) if keep_time else d["mtime"]
        if p == b"":
            if e["type"] == "dir":
                out[b""] = dict(type="dir", mode=e.get("mode", 0o755) & 0o7777, uid=e.get("uid", 0), gid=e.get("gid", 0), mtime=None, xattrs=xa)
            continue
        parts = p.split(b"/")
        for i in range(1, len(parts)):
            pp = b"/".join(parts[:i])
            if pp not in out:
                out[pp] = dict(type="dir", mode=d["mode"], uid=d["uid"], gid=d["gid"], mtime=d["mtime"], xattrs={})
        t = e["type"]
        if t == "link":
            tg = canon(e["target"])
            if root_becomes is not None and tg is not None:
                rb = canon(root_becomes)
                if tg.startswith(rb + b"/"):
                    tg = tg[len(rb) + 1:]
            links[p] = tg
            continue
        n = dict(type=t, mode=e.get("mode", 0o644) & 0o7777, uid=e.get("uid", 0), gid=e.get("gid", 0), mtime=mt, xattrs=xa)
        if t == "file":
            c = e.get("content", b"")
            n["size"] = len(c)
            n["sha"] = hashlib.sha256(c).hexdigest()
        elif t == "slink":
            n["target"] = e["target"]
            n["mode"] = 0o777
        elif t in ("chr", "blk"):
            maj, mi = e["dev"]
            n["rdev"] = (maj << 8) | (mi & 0xFF) | ((mi & 0xFFF00) << 12)
        if t == "dir" and p in out and p not in explicit:
            pass
        out[p] = n
        explicit.add(p)
    groups = {}
    for lp, tg in links.items():
        seen = set()
        while tg in links and tg not in seen:
            seen.add(tg)
            tg = links[tg]
        if tg in out and out[tg]["type"] != "dir":
            out[lp] = out[tg]
            groups.setdefault(tg, {tg}).add(lp)
        else:
            return None          # dangling / directory / cyclic hard link: no model (tar2sqfs must refuse)
    for tg, g in groups.items():
        out[tg]["links"] = tuple(sorted(g))
    return out
