"""Build driver: compiles /repo's current working tree directly from the source
lists in the Makemodule.am files (no dependence on autotools state).

build_tools(variant, dest) -> dict tool -> path
objects(variant, dest)     -> dict source -> object path (library objects)
"""
import os, re, subprocess, sys, hashlib, shutil, tempfile
from concurrent.futures import ThreadPoolExecutor

REPO = os.environ.get("VERIF_REPO", "/repo")
VERIF = os.path.dirname(os.path.dirname(os.path.abspath(__file__)))

AM_FILES = [
    "lib/sqfs/Makemodule.am", "lib/util/Makemodule.am", "lib/xfrm/Makemodule.am",
    "lib/fstree/Makemodule.am", "lib/common/Makemodule.am", "lib/tar/Makemodule.am",
    "lib/compat/Makemodule.am", "bin/gensquashfs/Makemodule.am",
    "bin/rdsquashfs/Makemodule.am", "bin/sqfs2tar/Makemodule.am",
    "bin/sqfsdiff/Makemodule.am", "bin/tar2sqfs/Makemodule.am",
]

BASE_CONDS = dict(WINDOWS=False, HAVE_PTHREAD=True, WITH_GZIP=True, WITH_XZ=True,
                  WITH_LZ4=True, WITH_ZSTD=True, WITH_BZIP2=True, WITH_LZO=False,
                  CUSTOM_ALLOC=True, HAVE_ZSTD_STREAM=True, WITH_SELINUX=True,
                  HAVE_DOXYGEN=False, WITH_READLINE=False)

GUARD = "AGENTD_SQUASHFS_TOOLS_NG_VERIF"


def parse_am(conds):
    """Return dict var -> list of words, honouring if/else/endif and +=."""
    out = {}
    for am in AM_FILES:
        p = os.path.join(REPO, am)
        if not os.path.exists(p):
            continue
        txt = open(p).read().replace("\\\n", " ")
        stack = []
        for line in txt.split("\n"):
            s = line.strip()
            if not s or s.startswith("#"):
                continue
            m = re.match(r"^if\s+(!?)(\w+)", s)
            if m:
                v = conds.get(m.group(2), False)
                if m.group(1):
                    v = not v
                stack.append(v)
                continue
            if s.startswith("else"):
                stack[-1] = not stack[-1]
                continue
            if s.startswith("endif"):
                stack.pop()
                continue
            if not all(stack):
                continue
            m = re.match(r"^(\w+)\s*(\+?=)\s*(.*)$", s)
            if not m:
                continue
            var, op, val = m.groups()
            words = val.split()
            if op == "=":
                out[var] = words
            else:
                out.setdefault(var, []).extend(words)
    return out


LIBS = ["libsquashfs_la", "libutil_a", "libxfrm_a", "libfstree_a", "libcommon_a",
        "libtar_a", "libcompat_a"]
TOOLS = ["gensquashfs", "rdsquashfs", "sqfs2tar", "sqfsdiff", "tar2sqfs"]
SYSLIBS = ["-lz", "-llzma", "-llz4", "-lzstd", "-lbz2", "-lselinux", "-lpthread"]

# link order of static libs per tool (objects are linked directly; duplicates between
# libsquashfs' imported util objects and libutil are resolved by using archive semantics)
TOOL_LIBS = {
    "gensquashfs": ["libcommon_a", "libsquashfs_la", "libfstree_a", "libutil_a", "libcompat_a"],
    "rdsquashfs": ["libcommon_a", "libcompat_a", "libutil_a", "libsquashfs_la", "libfstree_a"],
    "sqfs2tar": ["libcommon_a", "libutil_a", "libtar_a", "libsquashfs_la", "libxfrm_a", "libcompat_a", "libfstree_a"],
    "sqfsdiff": ["libcommon_a", "libsquashfs_la", "libcompat_a", "libutil_a", "libfstree_a"],
    "tar2sqfs": ["libcommon_a", "libtar_a", "libsquashfs_la", "libxfrm_a", "libfstree_a", "libcompat_a", "libutil_a"],
}


class Variant:
    def __init__(self, name, cc="clang", cflags=(), ldflags=(), conds=None, defs=(),
                 per_file=None, extra_srcs=(), extra_objs=()):
        self.name = name
        self.cc = cc
        self.cflags = list(cflags)
        self.ldflags = list(ldflags)
        self.conds = dict(BASE_CONDS)
        if conds:
            self.conds.update(conds)
        self.defs = list(defs)
        self.per_file = per_file or {}     # repo-relative source -> extra flags
        self.extra_srcs = list(extra_srcs)  # absolute paths of extra C files linked into every tool
        self.extra_objs = list(extra_objs)


ASAN_FLAGS = ["-fsanitize=address", "-fno-omit-frame-pointer", "-O1", "-g"]


def variant(name, **kw):
    if name == "asan":
        return Variant("asan", "clang", ASAN_FLAGS, ["-fsanitize=address"], **kw)
    if name == "plain":
        return Variant("plain", "gcc", ["-O1", "-g"], [], **kw)
    if name == "serial":
        return Variant("serial", "gcc", ["-O1", "-g"], [], conds=dict(HAVE_PTHREAD=False), **kw)
    if name == "serial_asan":
        return Variant("serial_asan", "clang", ASAN_FLAGS, ["-fsanitize=address"],
                       conds=dict(HAVE_PTHREAD=False), **kw)
    if name in ("envwrap", "envwrap_serial"):
        wraps = ["read", "write", "pread", "pwrite", "open", "openat", "close", "dup", "lseek", "ftruncate", "fsync", "unlink",
                 "malloc", "calloc", "realloc", "strdup", "strndup", "mmap", "readdir", "closedir",
                 "time", "clock_gettime", "gettimeofday"]
        ld = ["-fsanitize=address"] + ["-Wl,--wrap=" + w for w in wraps]
        conds = dict(HAVE_PTHREAD=False) if name == "envwrap_serial" else None
        return Variant(name, "clang", ASAN_FLAGS, ld, conds=conds,
                       extra_srcs=[os.path.join(VERIF, "engines", "env", "envwrap.c")], **kw)
    if name.startswith("hash"):
        bits = int(name[4:])
        wdir = kw.pop("workdir")
        w = os.path.join(wdir, "xxh_trunc_%d.c" % bits)
        with open(w, "w") as f:
            f.write("#include <stddef.h>\n#include <stdint.h>\nuint32_t vf_real_xxh32(const void *, size_t);\n"
                    "uint32_t xxh32(const void *p, size_t n) { return %s; }\n" %
                    ("0" if bits == 0 else "vf_real_xxh32(p, n) & ((1u << %d) - 1u)" % bits))
        return Variant(name, "clang", ASAN_FLAGS, ["-fsanitize=address"],
                       per_file={"lib/util/src/xxhash.c": ["-Dxxh32=vf_real_xxh32"]}, extra_srcs=[w], **kw)
    if name == "tsan":
        return Variant("tsan", "clang", ["-fsanitize=thread", "-O1", "-g"], ["-fsanitize=thread"], **kw)
    raise ValueError(name)


def base_cppflags(v):
    fl = ["-I" + os.path.join(REPO, "include"), "-I" + os.path.join(VERIF, "cfg"),
          "-D_GNU_SOURCE", "-DHAVE_CONFIG_H", "-D" + GUARD + "=1", "-pthread", "-w"]
    c = v.conds
    for k in ("WITH_GZIP", "WITH_XZ", "WITH_LZ4", "WITH_ZSTD", "WITH_BZIP2", "WITH_SELINUX", "WITH_LZO"):
        if c.get(k):
            fl.append("-D" + k)
    if c.get("HAVE_PTHREAD"):
        fl.append("-DHAVE_PTHREAD")
    else:
        fl.append("-DNO_THREAD_IMPL")
    if not c.get("CUSTOM_ALLOC"):
        fl.append("-DNO_CUSTOM_ALLOC")
    return fl + v.defs


def _cc(args):
    r = subprocess.run(args, capture_output=True, text=True)
    if r.returncode != 0:
        raise BuildError("compile failed: %s\n%s" % (" ".join(args), r.stderr[-4000:]))


class BuildError(Exception):
    pass


def source_sets(v):
    am = parse_am(v.conds)
    sets = {}
    for name in LIBS + TOOLS:
        srcs = [w for w in am.get(name + "_SOURCES", []) if w.endswith(".c")]
        # de-duplicate, keep order
        seen = set()
        sets[name] = [s for s in srcs if not (s in seen or seen.add(s))]
    return sets


def compile_all(v, dest, jobs=16, only=None):
    """Compile every library and tool source once. Returns (sets, objmap)."""
    os.makedirs(dest, exist_ok=True)
    sets = source_sets(v)
    cpp = base_cppflags(v)
    allsrc = []
    for name, srcs in sets.items():
        if only and name not in only:
            continue
        for s in srcs:
            if s not in allsrc:
                allsrc.append(s)
    objmap = {}
    cmds = []
    for s in allsrc:
        o = os.path.join(dest, s.replace("/", "_")[:-2] + ".o")
        objmap[s] = o
        extra = list(v.per_file.get(s, []))
        inc = []
        if s.startswith("bin/"):
            inc = ["-I" + os.path.join(REPO, os.path.dirname(s))]
        cmds.append([v.cc] + v.cflags + cpp + inc + extra + ["-c", os.path.join(REPO, s), "-o", o])
    with ThreadPoolExecutor(jobs) as ex:
        list(ex.map(_cc, cmds))
    return sets, objmap


def make_archives(v, dest, sets, objmap):
    libs = {}
    for name in LIBS:
        if not all(s in objmap for s in sets[name]):
            continue
        a = os.path.join(dest, name + ".a")
        if os.path.exists(a):
            os.unlink(a)
        subprocess.run(["ar", "rcs", a] + [objmap[s] for s in sets[name]], check=True)
        libs[name] = a
    return libs


def build_tools(v, dest, tools=TOOLS, jobs=16):
    """Build the CLI tools of /repo's working tree in variant v. Returns {tool: path}."""
    sets, objmap = compile_all(v, dest, jobs)
    libs = make_archives(v, dest, sets, objmap)
    xobjs = list(v.extra_objs)
    for i, src in enumerate(v.extra_srcs):
        o = os.path.join(dest, "extra%d.o" % i)
        # extra sources (shims) are compiled without sanitizer-specific defs but same cc
        _cc([v.cc] + v.cflags + ["-D_GNU_SOURCE", "-w", "-c", src, "-o", o])
        xobjs.append(o)
    out = {}
    cmds = []
    for t in tools:
        exe = os.path.join(dest, t)
        objs = [objmap[s] for s in sets[t]]
        la = [libs[l] for l in TOOL_LIBS[t]]
        cmds.append([v.cc] + v.cflags + v.ldflags + ["-o", exe] + objs + xobjs + la + la + SYSLIBS)
        out[t] = exe
    with ThreadPoolExecutor(jobs) as ex:
        list(ex.map(_cc, cmds))
    return out


def lib_objects(v, dest, jobs=16):
    """Compile and archive the libraries only. Returns {libname: archive}, objmap."""
    sets, objmap = compile_all(v, dest, jobs, only=set(LIBS))
    return make_archives(v, dest, sets, objmap), objmap


def compile_harness(v, dest, name, srcs, libs, extra_flags=(), link_libs=None, jobs=16):
    """Compile harness C files (absolute paths) and link them against library archives."""
    objs = []
    cpp = base_cppflags(v)
    cmds = []
    for i, s in enumerate(srcs):
        o = os.path.join(dest, "%s_h%d.o" % (name, i))
        cmds.append([v.cc] + v.cflags + cpp + ["-I" + REPO, "-I" + os.path.join(VERIF, "engines")] +
                    list(extra_flags) + ["-c", s, "-o", o])
        objs.append(o)
    with ThreadPoolExecutor(jobs) as ex:
        list(ex.map(_cc, cmds))
    exe = os.path.join(dest, name)
    order = link_libs or ["libcommon_a", "libtar_a", "libsquashfs_la", "libxfrm_a", "libfstree_a",
                          "libutil_a", "libcompat_a"]
    la = [libs[l] for l in order if l in libs]
    _cc([v.cc] + v.cflags + v.ldflags + ["-o", exe] + objs + la + la + SYSLIBS)
    return exe


class Scratch:
    """Private scratch directory outside /repo and /verif, removed on exit."""

    def __init__(self, tag="verif"):
        base = os.environ.get("VERIF_SCRATCH", "/tmp")
        self.path = tempfile.mkdtemp(prefix="vf_%s_" % tag, dir=base)

    def __enter__(self):
        return self.path

    def __exit__(self, *a):
        shutil.rmtree(self.path, ignore_errors=True)


def tree_digest():
    """sha256 over the repo's tracked+modified C sources (for the evidence)."""
    h = hashlib.sha256()
    r = subprocess.run(["git", "-C", REPO, "rev-parse", "HEAD"], capture_output=True, text=True)
    h.update(r.stdout.encode())
    r = subprocess.run(["git", "-C", REPO, "diff", "HEAD", "--", "lib", "bin", "include"], capture_output=True)
    h.update(r.stdout)
    return h.hexdigest()[:16]


if __name__ == "__main__":
    import time
    t = time.time()
    v = variant(sys.argv[1] if len(sys.argv) > 1 else "asan")
    dest = sys.argv[2] if len(sys.argv) > 2 else "/tmp/vf_build_test"
    print(build_tools(v, dest))
    print("%.1fs" % (time.time() - t))
