"""Run a tool built in the 'envwrap' variant under an environment plan; parse the call log."""
import os, tempfile, subprocess, signal, time
from vlib.common import CLEAN_ENV, ToolResult


def run_env(argv, plan="", out_path=None, stdin=None, stdin_file=None, cwd=None, timeout=30.0, env=None, want_log=True, stdout_file=None):
    e = dict(CLEAN_ENV)
    if env:
        e.update(env)
    e["VERIF_ENV_PLAN"] = plan
    if out_path:
        e["VERIF_OUT_PATH"] = out_path
    lf = None
    pass_fds = ()
    if want_log:
        lf = tempfile.TemporaryFile()
        e["VERIF_ENV_LOGFD"] = str(lf.fileno())
        pass_fds = (lf.fileno(),)
    fin = open(stdin_file, "rb") if stdin_file else None
    fout = open(stdout_file, "wb") if stdout_file else None
    t0 = time.time()
    try:
        p = subprocess.Popen(argv, stdin=fin if fin else (subprocess.PIPE if stdin is not None else subprocess.DEVNULL),
                             stdout=fout if fout else subprocess.PIPE, stderr=subprocess.PIPE, env=e, cwd=cwd,
                             start_new_session=True, pass_fds=pass_fds)
        try:
            out, err = p.communicate(stdin, timeout=timeout)
            r = ToolResult(p.returncode, out or b"", err, False, time.time() - t0)
        except subprocess.TimeoutExpired:
            try:
                os.killpg(p.pid, signal.SIGKILL)
            except ProcessLookupError:
                pass
            out, err = p.communicate()
            r = ToolResult(-9, out or b"", err, True, time.time() - t0)
    finally:
        if fin:
            fin.close()
        if fout:
            fout.close()
    log = []
    if lf:
        lf.seek(0)
        for line in lf.read().decode("latin1").splitlines():
            t = line.split()
            if len(t) >= 6 and t[0] != "readdir-snapshot":
                log.append((t[0], int(t[1]), int(t[2]), int(t[3]), int(t[4]), int(t[5]), len(t) > 6 and t[6] == "OUT"))
        lf.close()
    return r, log


def count(log, cls, out_only=False):
    return sum(1 for l in log if l[0] == cls and (l[6] or not out_only))


def out_calls(log):
    """number of write-like calls on the output file"""
    return sum(1 for l in log if l[6] and l[0] in ("write", "pwrite", "trunc"))


def log_prefix_equal(base, dev, upto_cls=None, upto_k=None):
    """the deviated run must replay the baseline up to the first deviation (determinism check)"""
    for i, (a, b) in enumerate(zip(base, dev)):
        if upto_cls is not None and a[0] == upto_cls and a[1] == upto_k:
            return True
        if a[:4] != b[:4]:
            return False
    return True
