"""Helpers to build and drive SCHED explorers (engines/sched)."""
import os, json, subprocess, time
from vlib import build
from vlib.common import VERIF, run_tool, CLEAN_ENV

ENG = os.path.join(VERIF, "engines", "sched")


def cflags(v):
    return v.cflags + build.base_cppflags(v) + ["-I" + build.REPO, "-I" + ENG]


def build_explorer(sd, name, harness_src, repo_srcs, v=None, extra_flags=(), extra_objs=(), libs=()):
    """harness TU compiled with the shim force-included; repo_srcs compiled plainly (or with shim if in shim_srcs)."""
    v = v or build.variant("asan")
    cf = cflags(v)
    objs = []
    cmds = []
    o = os.path.join(sd, name + "_h.o")
    cmds.append(["clang"] + cf + list(extra_flags) + ["-include", os.path.join(ENG, "vs_shim.h"), "-c", harness_src, "-o", o])
    objs.append(o)
    for s in ("vs.c", "explore.c"):
        o = os.path.join(sd, name + "_" + s[:-2] + ".o")
        cmds.append(["clang"] + cf + ["-c", os.path.join(ENG, s), "-o", o])
        objs.append(o)
    for s in repo_srcs:
        shim = False
        if isinstance(s, tuple):
            s, shim = s
        o = os.path.join(sd, name + "_" + s.replace("/", "_")[:-2] + ".o")
        cmds.append(["clang"] + cf + list(extra_flags) + (["-include", os.path.join(ENG, "vs_shim.h")] if shim else []) +
                    ["-c", os.path.join(build.REPO, s), "-o", o])
        objs.append(o)
    from concurrent.futures import ThreadPoolExecutor
    with ThreadPoolExecutor(16) as ex:
        list(ex.map(build._cc, cmds))
    exe = os.path.join(sd, name)
    build._cc(["clang"] + v.cflags + v.ldflags + ["-o", exe] + objs + list(extra_objs) + list(libs) + ["-lpthread"])
    return exe


def build_free_running(sd, name, harness_src, repo_srcs, san="thread", extra_flags=(), libs=()):
    """Same harness body with real pthreads (no shim), for the free-running race pass."""
    v = build.Variant("fr", "clang", ["-fsanitize=" + san, "-O1", "-g", "-fno-omit-frame-pointer"], ["-fsanitize=" + san])
    cf = cflags(v) + ["-DVS_FREE_RUNNING=1"]
    exe = os.path.join(sd, name)
    build._cc(["clang"] + cf + list(extra_flags) + [harness_src] + [os.path.join(build.REPO, s[0] if isinstance(s, tuple) else s) for s in repo_srcs] +
              ["-o", exe] + v.ldflags + list(libs) + ["-lpthread"])
    return exe


def explore(exe, hargs, bound=-1, spur=0, procs=16, deadline=0, save=None, nohash=False, timeout=3600, unlock_points=False):
    argv = [exe, "--bound", str(bound), "--spur", str(spur), "--procs", str(procs)]
    if deadline:
        argv += ["--deadline", "%.1f" % deadline]
    if save:
        argv += ["--save", save]
    if nohash:
        argv += ["--nohash"]
    argv += ["--"] + [str(a) for a in hargs]
    r = run_tool(argv, timeout=timeout, env={"VS_UNLOCK_POINT": "1"} if unlock_points else None)
    try:
        j = json.loads(r.out.decode().strip().splitlines()[-1])
    except Exception:
        return None, r
    return j, r


def replay(exe, hargs, sched_file):
    return run_tool([exe, "--replay", sched_file, "--"] + [str(a) for a in hargs], timeout=120)


def build_bp_explorer(sd, name="bp_explore", v=None, extra_flags=(), xxh_bits=None):
    """block processor harness on the controlled pool. xxh_bits: truncate xxh32 to that many bits (C08)."""
    v = v or build.variant("asan")
    cf = cflags(v)
    libdir = os.path.join(sd, name + "_libs")
    libs, objmap = build.lib_objects(v, libdir)
    objs = []
    o = os.path.join(sd, name + "_h.o")
    build._cc(["clang"] + cf + list(extra_flags) + ["-include", os.path.join(ENG, "vs_shim.h"), "-c", os.path.join(ENG, "bp_harness.c"), "-o", o])
    objs.append(o)
    for s in ("vs.c", "explore.c"):
        o = os.path.join(sd, name + "_" + s[:-2] + ".o")
        build._cc(["clang"] + cf + ["-c", os.path.join(ENG, s), "-o", o])
        objs.append(o)
    o = os.path.join(sd, name + "_bp.o")
    build._cc(["clang"] + cf + ["-Dthread_pool_create=bp_pool_create", "-c",
                                os.path.join(build.REPO, "lib/sqfs/src/block_processor/block_processor.c"), "-o", o])
    objs.append(o)
    o = os.path.join(sd, name + "_serial.o")
    build._cc(["clang"] + cf + ["-c", os.path.join(build.REPO, "lib/util/src/threadpool_serial.c"), "-o", o])
    objs.append(o)
    if xxh_bits is not None:
        o = os.path.join(sd, name + "_xxh.o")
        build._cc(["clang"] + cf + ["-Dxxh32=vf_real_xxh32", "-c", os.path.join(build.REPO, "lib/util/src/xxhash.c"), "-o", o])
        objs.append(o)
        w = os.path.join(sd, name + "_xxhw.c")
        open(w, "w").write("#include <stddef.h>\n#include <stdint.h>\nuint32_t vf_real_xxh32(const void *, size_t);\n"
                           "uint32_t xxh32(const void *p, size_t n) { return vf_real_xxh32(p, n) & ((1u << %d) - 1u); }\n" % xxh_bits)
        o2 = os.path.join(sd, name + "_xxhw.o")
        build._cc(["clang"] + v.cflags + ["-c", w, "-o", o2])
        objs.append(o2)
    exe = os.path.join(sd, name)
    build._cc(["clang"] + v.cflags + v.ldflags + ["-o", exe] + objs + [libs["libsquashfs_la"], libs["libutil_a"], libs["libcompat_a"]] +
              ["-lz", "-llzma", "-llz4", "-lzstd", "-lpthread"])
    return exe
